/* Native replay for the C02 finding on SM3 / HMAC-SM3 tag truncation: a job with auth_tag_output_len_in_bytes = T must write the leading
 * T bytes of the 32-byte value.  usage: sm3_tag_replay <sse|avx2|avx512> ; prints MISMATCH alg=.. taglen=.. byte=.. (exit 1) or OK (exit 0). */
#include <stdio.h>
#include <stdlib.h>
#include <string.h>
#include <stdint.h>
#include "intel-ipsec-mb.h"

static int run(IMB_MGR *m, IMB_HASH_ALG alg, const uint8_t *msg, size_t len, const uint8_t *ipad, const uint8_t *opad, uint8_t *tag, size_t taglen)
{
        IMB_JOB *job = IMB_GET_NEXT_JOB(m);
        memset(job, 0, sizeof(*job));
        job->cipher_mode = IMB_CIPHER_NULL; job->cipher_direction = IMB_DIR_ENCRYPT; job->chain_order = IMB_ORDER_HASH_CIPHER;
        job->hash_alg = alg; job->src = msg; job->msg_len_to_hash_in_bytes = len;
        job->auth_tag_output = tag; job->auth_tag_output_len_in_bytes = taglen;
        job->u.HMAC._hashed_auth_key_xor_ipad = ipad; job->u.HMAC._hashed_auth_key_xor_opad = opad;
        job = IMB_SUBMIT_JOB(m);
        if (job == NULL) job = IMB_FLUSH_JOB(m);
        return (job != NULL && job->status == IMB_STATUS_COMPLETED) ? 0 : -1;
}

int main(int argc, char **argv)
{
        const char *arch = argc > 1 ? argv[1] : "sse";
        IMB_MGR *m = alloc_mb_mgr(0);
        if (!m) return 2;
        if (!strcmp(arch, "sse")) init_mb_mgr_sse(m); else if (!strcmp(arch, "avx2")) init_mb_mgr_avx2(m); else init_mb_mgr_avx512(m);
        if (imb_get_errno(m) != 0) { printf("SKIP init errno=%d\n", imb_get_errno(m)); return 0; }
        uint8_t msg[100], key[20], ipad[32], opad[32], full[32], tag[40];
        for (int i = 0; i < 100; i++) msg[i] = (uint8_t) (5 * i + 2);
        for (int i = 0; i < 20; i++) key[i] = (uint8_t) (i + 1);
        imb_hmac_ipad_opad(m, IMB_AUTH_HMAC_SM3, key, sizeof(key), ipad, opad);
        int bad = 0;
        for (int a = 0; a < 2; a++) {
                const IMB_HASH_ALG alg = a ? IMB_AUTH_HMAC_SM3 : IMB_AUTH_SM3;
                if (run(m, alg, msg, 100, ipad, opad, full, 32)) { printf("ERROR job failed errno %d\n", imb_get_errno(m)); return 2; }
                for (size_t t = 1; t <= 32; t++) {
                        memset(tag, 0xEE, sizeof(tag));
                        if (run(m, alg, msg, 100, ipad, opad, tag, t)) { printf("ERROR job failed taglen %zu errno %d\n", t, imb_get_errno(m)); return 2; }
                        for (size_t i = 0; i < t; i++)
                                if (tag[i] != full[i]) { printf("MISMATCH alg=%s taglen=%zu byte=%zu got %02x want %02x (%s manager)\n", a ? "HMAC-SM3" : "SM3", t, i, tag[i], full[i], arch); bad++; break; }
                        if (tag[t] != 0xEE) { printf("OVERWRITE alg=%s taglen=%zu\n", a ? "HMAC-SM3" : "SM3", t); bad++; }
                }
        }
        if (!bad) printf("OK\n");
        return bad ? 1 : 0;
}
