/* Native replay for the C13 finding on the HMAC-SHA-384/512 managers: after the only job in flight has been handed back,
 * does the manager still hold the job's inner digest H((K ^ ipad) || msg)?   usage: hmac_residue_replay <sse|avx2|avx512> <384|512>
 * prints RESIDUE offset=<n> (exit 1) or CLEAN (exit 0). */
#include <stdio.h>
#include <stdlib.h>
#include <string.h>
#include <stdint.h>
#include "intel-ipsec-mb.h"
#include "include/ipsec_ooo_mgr.h"

int main(int argc, char **argv)
{
        const char *arch = argc > 1 ? argv[1] : "sse";
        const int bits = argc > 2 ? atoi(argv[2]) : 512;
        IMB_MGR *m = alloc_mb_mgr(0);
        if (!m) return 2;
        if (!strcmp(arch, "sse")) init_mb_mgr_sse(m);
        else if (!strcmp(arch, "avx2")) init_mb_mgr_avx2(m);
        else init_mb_mgr_avx512(m);
        if (imb_get_errno(m) != 0) { printf("SKIP init errno=%d\n", imb_get_errno(m)); return 0; }
        uint8_t key[32], msg[100], ipad[64], opad[64], tag[64], kb[128], inner_in[228], inner[64];
        for (int i = 0; i < 32; i++) key[i] = (uint8_t) (0x11 * i + 3);
        for (int i = 0; i < 100; i++) msg[i] = (uint8_t) (7 * i + 1);
        const IMB_HASH_ALG alg = bits == 384 ? IMB_AUTH_HMAC_SHA_384 : IMB_AUTH_HMAC_SHA_512;
        imb_hmac_ipad_opad(m, alg, key, sizeof(key), ipad, opad);
        /* inner digest, independently: SHA(K^ipad || msg) through the one-shot API */
        memset(kb, 0x36, sizeof(kb));
        for (int i = 0; i < 32; i++) kb[i] ^= key[i];
        memcpy(inner_in, kb, 128); memcpy(inner_in + 128, msg, 100);
        if (bits == 384) IMB_SHA384(m, inner_in, 228, inner); else IMB_SHA512(m, inner_in, 228, inner);
        const unsigned dlen = bits == 384 ? 48 : 64;
        IMB_JOB *job = IMB_GET_NEXT_JOB(m);
        memset(job, 0, sizeof(*job));
        job->cipher_mode = IMB_CIPHER_NULL; job->cipher_direction = IMB_DIR_ENCRYPT; job->chain_order = IMB_ORDER_HASH_CIPHER;
        job->hash_alg = alg; job->src = msg; job->hash_start_src_offset_in_bytes = 0; job->msg_len_to_hash_in_bytes = 100;
        job->auth_tag_output = tag; job->auth_tag_output_len_in_bytes = dlen;
        job->u.HMAC._hashed_auth_key_xor_ipad = ipad; job->u.HMAC._hashed_auth_key_xor_opad = opad;
        job = IMB_SUBMIT_JOB(m);
        while (job == NULL && (job = IMB_FLUSH_JOB(m)) == NULL) { printf("ERROR no job\n"); return 2; }
        if (job->status != IMB_STATUS_COMPLETED) { printf("ERROR status %d\n", job->status); return 2; }
        const uint8_t *p = (const uint8_t *) (bits == 384 ? (void *) m->hmac_sha_384_ooo : (void *) m->hmac_sha_512_ooo);
        const size_t n = sizeof(MB_MGR_HMAC_SHA_512_OOO);
        for (size_t i = 0; i + 16 <= n; i++)
                if (memcmp(p + i, inner, 16) == 0) { printf("RESIDUE offset=%zu (inner digest of the completed job, %s HMAC-SHA-%d manager)\n", i, arch, bits); return 1; }
        printf("CLEAN\n");
        return 0;
}
