/* Native replay (C14/C17): a failing imb_hmac_ipad_opad()/hash-burst call on manager A followed by a successful call on manager B:
 * imb_get_errno(A) must still report A's failure (what A reports when used alone). prints OK or MISMATCH lines; exit 1 on mismatch */
#include <stdio.h>
#include <string.h>
#include <intel-ipsec-mb.h>
int main(void)
{
        IMB_MGR *a = alloc_mb_mgr(0), *b = alloc_mb_mgr(0);
        init_mb_mgr_sse(a); init_mb_mgr_sse(b);
        static uint8_t key[100], ip[64], op[64];
        int bad = 0;
        /* 1. HMAC-MD5 key longer than one block is refused */
        imb_hmac_ipad_opad(a, IMB_AUTH_MD5, key, 100, ip, op);
        const int alone = imb_get_errno(a);
        (void) IMB_QUEUE_SIZE(b);                 /* any successful call on another manager */
        const int after = imb_get_errno(a);
        printf("hmac_ipad_opad(MD5,len 100): errno(A)=%d alone, %d after a call on B\n", alone, after);
        if (alone != IMB_ERR_KEY_LEN || after != IMB_ERR_KEY_LEN) { printf("MISMATCH ipad_opad_md5\n"); bad = 1; }
        /* 2. unsupported algorithm */
        imb_hmac_ipad_opad(a, IMB_AUTH_AES_XCBC, key, 16, ip, op);
        const int alone2 = imb_get_errno(a);
        (void) IMB_QUEUE_SIZE(b);
        const int after2 = imb_get_errno(a);
        printf("hmac_ipad_opad(XCBC): errno(A)=%d alone, %d after a call on B\n", alone2, after2);
        if (alone2 != IMB_ERR_HASH_ALGO || after2 != IMB_ERR_HASH_ALGO) { printf("MISMATCH ipad_opad_alg\n"); bad = 1; }
        /* 3. hash burst with NULL job array */
        const uint32_t n = IMB_SUBMIT_HASH_BURST(a, NULL, 1, IMB_AUTH_HMAC_SHA_1);
        const int alone3 = imb_get_errno(a);
        (void) IMB_QUEUE_SIZE(b);
        const int after3 = imb_get_errno(a);
        printf("submit_hash_burst(NULL): ret=%u errno(A)=%d alone, %d after a call on B\n", n, alone3, after3);
        if (alone3 != IMB_ERR_NULL_JOB || after3 != IMB_ERR_NULL_JOB) { printf("MISMATCH hash_burst_null\n"); bad = 1; }
        if (!bad) printf("OK\n");
        return bad;
}
