/* Native replay for the C07 finding on the AVX-512/VAES AES-CMAC manager: a message whose last block is partial is placed so that its
 * last byte is the last byte of a mapped page (the next page is PROT_NONE).  usage: cmac_overread_replay <sse|avx2|avx512> <len> [keybits]
 * prints FAULT addr=<msg end + n> (exit 1) or OK (exit 0). */
#define _GNU_SOURCE
#include <stdio.h>
#include <stdlib.h>
#include <string.h>
#include <stdint.h>
#include <signal.h>
#include <setjmp.h>
#include <sys/mman.h>
#include <unistd.h>
#include "intel-ipsec-mb.h"

static sigjmp_buf jb;
static volatile uintptr_t fault_addr;
static void on_segv(int sig, siginfo_t *si, void *u) { (void) sig; (void) u; fault_addr = (uintptr_t) si->si_addr; siglongjmp(jb, 1); }

int main(int argc, char **argv)
{
        const char *arch = argc > 1 ? argv[1] : "avx512";
        const size_t len = argc > 2 ? (size_t) atoi(argv[2]) : 1;
        const int kbits = argc > 3 ? atoi(argv[3]) : 128;
        IMB_MGR *m = alloc_mb_mgr(0);
        if (!m) return 2;
        if (!strcmp(arch, "sse")) init_mb_mgr_sse(m);
        else if (!strcmp(arch, "avx2")) init_mb_mgr_avx2(m);
        else init_mb_mgr_avx512(m);
        if (imb_get_errno(m) != 0) { printf("SKIP init errno=%d\n", imb_get_errno(m)); return 0; }
        const long pg = sysconf(_SC_PAGESIZE);
        uint8_t *map = mmap(NULL, 2 * pg, PROT_READ | PROT_WRITE, MAP_PRIVATE | MAP_ANONYMOUS, -1, 0);
        if (map == MAP_FAILED) return 2;
        mprotect(map + pg, pg, PROT_NONE);
        uint8_t *msg = map + pg - len;           /* last message byte = last mapped byte */
        for (size_t i = 0; i < len; i++) msg[i] = (uint8_t) (i * 3 + 1);
        uint8_t key[32] = { 1, 2, 3, 4, 5, 6, 7, 8, 9, 10, 11, 12, 13, 14, 15, 16, 17, 18, 19, 20, 21, 22, 23, 24, 25, 26, 27, 28, 29, 30, 31, 32 };
        DECLARE_ALIGNED(uint32_t ek[15 * 4], 16); DECLARE_ALIGNED(uint32_t dk[15 * 4], 16);
        uint32_t sk1[4], sk2[4];
        uint8_t tag[16];
        if (kbits == 128) { IMB_AES_KEYEXP_128(m, key, ek, dk); IMB_AES_CMAC_SUBKEY_GEN_128(m, ek, sk1, sk2); }
        else { IMB_AES_KEYEXP_256(m, key, ek, dk); IMB_AES_CMAC_SUBKEY_GEN_256(m, ek, sk1, sk2); }
        struct sigaction sa; memset(&sa, 0, sizeof(sa)); sa.sa_sigaction = on_segv; sa.sa_flags = SA_SIGINFO; sigaction(SIGSEGV, &sa, NULL);
        if (sigsetjmp(jb, 1)) {
                printf("FAULT addr=msg_end+%ld (%s manager, AES-CMAC-%d, message length %zu)\n", (long) (fault_addr - (uintptr_t) (map + pg)), arch, kbits, len);
                return 1;
        }
        IMB_JOB *job = IMB_GET_NEXT_JOB(m);
        memset(job, 0, sizeof(*job));
        job->cipher_mode = IMB_CIPHER_NULL; job->cipher_direction = IMB_DIR_ENCRYPT; job->chain_order = IMB_ORDER_HASH_CIPHER;
        job->hash_alg = kbits == 128 ? IMB_AUTH_AES_CMAC : IMB_AUTH_AES_CMAC_256;
        job->src = msg; job->hash_start_src_offset_in_bytes = 0; job->msg_len_to_hash_in_bytes = len;
        job->auth_tag_output = tag; job->auth_tag_output_len_in_bytes = 16;
        job->u.CMAC._key_expanded = ek; job->u.CMAC._skey1 = sk1; job->u.CMAC._skey2 = sk2;
        job = IMB_SUBMIT_JOB(m);
        if (job == NULL) job = IMB_FLUSH_JOB(m);
        if (job == NULL || job->status != IMB_STATUS_COMPLETED) { printf("ERROR status %d errno %d\n", job ? (int) job->status : -1, imb_get_errno(m)); return 2; }
        printf("OK tag %02x%02x%02x%02x\n", tag[0], tag[1], tag[2], tag[3]);
        return 0;
}
