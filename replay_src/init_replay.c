#include <stdio.h>
#include <intel-ipsec-mb.h>
int main(int argc,char**argv){
  IMB_MGR *m=alloc_mb_mgr(0);
  if(argc>1){ init_mb_mgr_sse(m); printf("after sse init: errno=%d arch=%u\n", imb_get_errno(m), m->used_arch); }
  m->features &= ~IMB_FEATURE_AVX512F;
  printf("calling init_mb_mgr_avx512 with AVX512F bit cleared (simulating CPU without AVX512)\n"); fflush(stdout);
  init_mb_mgr_avx512(m);
  printf("returned: errno=%d (%s) used_arch=%u selftest_pass=%d\n", imb_get_errno(m), imb_get_strerror(imb_get_errno(m)), m->used_arch, !!(m->features&IMB_FEATURE_SELF_TEST_PASS));
  return 0; }
