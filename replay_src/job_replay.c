/* Native replay of a job descriptor produced by a CBMC counterexample (C12/C06/C14).
 * usage: job_replay <arch: sse|avx2|avx512|auto> key=value ...   (pointer fields: 0 = NULL, 1 = valid buffer)
 * prints: status=<n> errno=<n> returned=<0|1>
 */
#include <stdio.h>
#include <stdlib.h>
#include <string.h>
#include <stdint.h>
#include <sys/mman.h>
#include <intel-ipsec-mb.h>

static int dummy_fn(IMB_JOB *j) { (void) j; return 0; }

int
main(int argc, char **argv)
{
        IMB_MGR *m = alloc_mb_mgr(0);
        if (!m) return 3;
        if (!strcmp(argv[1], "sse")) init_mb_mgr_sse(m);
        else if (!strcmp(argv[1], "avx2")) init_mb_mgr_avx2(m);
        else if (!strcmp(argv[1], "avx512")) init_mb_mgr_avx512(m);
        else init_mb_mgr_auto(m, NULL);
        size_t SZ = 1 << 20;
        uint8_t *pool = mmap(NULL, 24 * SZ, PROT_READ | PROT_WRITE, MAP_PRIVATE | MAP_ANONYMOUS, -1, 0);
        int np = 0;
#define BUF() (pool + (np++) * SZ)
        IMB_JOB *j = IMB_GET_NEXT_JOB(m);
        memset(j, 0, sizeof(*j));
        static const void *ks3[3];
        static struct IMB_SGL_IOV segs[2];
        for (int i = 2; i < argc; i++) {
                char *eq = strchr(argv[i], '=');
                if (!eq) continue;
                *eq = 0;
                const char *k = argv[i];
                uint64_t v = strtoull(eq + 1, NULL, 0);
#define F(name) if (!strcmp(k, #name)) { j->name = v; continue; }
#define P(name, T) if (!strcmp(k, #name)) { j->name = v ? (T) BUF() : NULL; continue; }
                F(key_len_in_bytes) F(cipher_start_src_offset_in_bytes) F(msg_len_to_cipher_in_bytes)
                F(hash_start_src_offset_in_bytes) F(msg_len_to_hash_in_bytes) F(iv_len_in_bytes)
                F(auth_tag_output_len_in_bytes) F(cipher_mode) F(cipher_direction) F(hash_alg) F(chain_order) F(sgl_state)
                F(u.CCM.aad_len_in_bytes) F(u.GCM.aad_len_in_bytes) F(u.GMAC.iv_len_in_bytes)
                P(enc_keys, const void *) P(dec_keys, const void *) P(src, const uint8_t *) P(dst, uint8_t *) P(iv, const uint8_t *)
                P(auth_tag_output, uint8_t *) P(u.XCBC._k1_expanded, const uint32_t *) P(u.XCBC._k2, const uint8_t *)
                P(u.XCBC._k3, const uint8_t *) P(cipher_fields.CBCS.next_iv, void *)
                if (!strcmp(k, "cipher_func")) { j->cipher_func = v ? dummy_fn : NULL; continue; }
                if (!strcmp(k, "hash_func")) { j->hash_func = v ? dummy_fn : NULL; continue; }
                if (!strcmp(k, "ks3")) { for (int t = 0; t < 3; t++) ks3[t] = (v >> t) & 1 ? BUF() : NULL;
                        if (j->enc_keys) j->enc_keys = ks3; if (j->dec_keys) j->dec_keys = ks3; continue; }
                if (!strcmp(k, "dst_is_src_plus_off")) { if (v) j->dst = (uint8_t *) (uintptr_t) (j->src + j->cipher_start_src_offset_in_bytes); continue; }
                fprintf(stderr, "unknown field %s\n", k);
        }
        (void) segs;
        IMB_JOB *r = IMB_SUBMIT_JOB(m);
        int e = imb_get_errno(m);
        if (!r) r = IMB_FLUSH_JOB(m);
        printf("status=%d errno=%d returned=%d\n", r ? (int) r->status : -1, e, r != NULL);
        return 0;
}
