/* Native replay for C13 register-residue findings: run an AES-CTR job through the public job API on the SSE variant and capture
 * the general-purpose registers at the instant IMB_SUBMIT_JOB returns (assembly trampoline).  Reports whether 8 bytes of the
 * final partial PLAINTEXT block (decrypt direction) are still present in a register.
 * usage: residue_replay <msg_len>   prints "FOUND reg=<n> ..." or "NOTFOUND" */
#include <stdio.h>
#include <stdlib.h>
#include <string.h>
#include <stdint.h>
#include <intel-ipsec-mb.h>

static uint64_t regs[16];
static IMB_JOB *call_capture(IMB_MGR *m)
{
        IMB_JOB *r;
        void *fn = (void *) m->submit_job;
        __asm__ volatile("mov %[m], %%rdi\n\t"
                         "call *%[fn]\n\t"
                         "mov %%rcx, 8(%[rg])\n\t mov %%rdx, 16(%[rg])\n\t mov %%rsi, 48(%[rg])\n\t mov %%rdi, 56(%[rg])\n\t"
                         "mov %%r8, 64(%[rg])\n\t mov %%r9, 72(%[rg])\n\t mov %%r10, 80(%[rg])\n\t mov %%r11, 88(%[rg])\n\t"
                         : "=a"(r)
                         : [m] "r"(m), [fn] "r"(fn), [rg] "b"(regs)
                         : "rcx", "rdx", "rsi", "rdi", "r8", "r9", "r10", "r11", "memory", "cc", "xmm0", "xmm1", "xmm2", "xmm3", "xmm4", "xmm5", "xmm6",
                           "xmm7", "xmm8", "xmm9", "xmm10", "xmm11", "xmm12", "xmm13", "xmm14", "xmm15");
        return r;
}

int
main(int argc, char **argv)
{
        const unsigned len = argc > 1 ? (unsigned) atoi(argv[1]) : 24;
        IMB_MGR *m = alloc_mb_mgr(0);
        init_mb_mgr_sse(m);
        static uint8_t key[16], iv[16], pt[256], ct[256], out[256];
        DECLARE_ALIGNED(uint32_t ek[4 * 15], 16);
        DECLARE_ALIGNED(uint32_t dk[4 * 15], 16);
        for (unsigned i = 0; i < 16; i++) { key[i] = (uint8_t) (0x10 + i); iv[i] = (uint8_t) (0xA0 + i); }
        for (unsigned i = 0; i < sizeof(pt); i++) pt[i] = (uint8_t) (0xC1 + 7 * i);
        IMB_AES_KEYEXP_128(m, key, ek, dk);
        for (int dir = 0; dir < 2; dir++) {
                IMB_JOB *j = IMB_GET_NEXT_JOB(m);
                memset(j, 0, sizeof(*j));
                j->cipher_mode = IMB_CIPHER_CNTR; j->cipher_direction = dir ? IMB_DIR_DECRYPT : IMB_DIR_ENCRYPT; j->chain_order = dir ? IMB_ORDER_HASH_CIPHER : IMB_ORDER_CIPHER_HASH;
                j->hash_alg = IMB_AUTH_NULL; j->enc_keys = ek; j->dec_keys = dk; j->key_len_in_bytes = 16; j->iv = iv; j->iv_len_in_bytes = 16;
                j->src = dir ? ct : pt; j->dst = dir ? out : ct; j->msg_len_to_cipher_in_bytes = len;
                IMB_JOB *r = dir ? call_capture(m) : IMB_SUBMIT_JOB(m);
                if (!r || r->status != IMB_STATUS_COMPLETED) { printf("job failed\n"); return 2; }
        }
        if (memcmp(out, pt, len)) { printf("decrypt mismatch\n"); return 2; }
        const unsigned tail = len % 16, off = len - tail;
        if (tail < 4) { printf("tail too short to judge\n"); return 2; }
        const unsigned n = tail > 8 ? 8 : tail;
        int found = 0;
        for (int r = 0; r < 16; r++)
                for (unsigned sh = 0; sh + n <= 8; sh++)
                        if (!memcmp(((uint8_t *) &regs[r]) + sh, pt + off, n) || (tail > 8 && !memcmp(((uint8_t *) &regs[r]), pt + off + 8, tail - 8 > 4 ? 4 : tail - 8) && tail - 8 >= 4)) {
                                printf("FOUND reg=%d value=%016lx holds plaintext bytes of the final partial block\n", r, (unsigned long) regs[r]);
                                found = 1;
                        }
        if (!found) printf("NOTFOUND\n");
        return 0;
}
