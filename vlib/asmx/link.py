"""Link a set of .asm units together with the units that define the global DATA they reference (cross-unit constant tables)."""
import os, re, threading
from vlib.core import *
from vlib.core import run as sh

_idx = None
_lock = threading.Lock()


def data_index():
    global _idx
    with _lock:
        if _idx is None:
            _idx = {}
            for d in sorted(os.listdir(LIB)):
                p = os.path.join(LIB, d)
                if not os.path.isdir(p) or d == 'avx2_t4':
                    continue
                for f in sorted(os.listdir(p)):
                    if f.endswith('.asm'):
                        try:
                            txt = open(os.path.join(p, f), errors='replace').read()
                        except OSError:
                            continue
                        for m in re.finditer(r'MKGLOBAL\(\s*(\w+)\s*,\s*data\s*,', txt):
                            _idx.setdefault(m.group(1), d + '/' + f)
        return _idx


_inc = None


def inc_candidates(sym):
    """units that %include an .inc file exporting `sym` as global data (the definition may sit behind a preprocessor guard,
    so the caller has to assemble a candidate and look at its symbol table)"""
    global _inc
    with _lock:
        if _inc is None:
            _inc = {}
            incs = {}
            p = os.path.join(LIB, 'include')
            for f in sorted(os.listdir(p)):
                if f.endswith(('.inc', '.asm')):
                    txt = open(os.path.join(p, f), errors='replace').read()
                    for m in re.finditer(r'MKGLOBAL\(\s*(\w+)\s*,\s*data\s*,', txt):
                        incs.setdefault('include/' + f, set()).add(m.group(1))
            for d in sorted(os.listdir(LIB)):
                q = os.path.join(LIB, d)
                if not os.path.isdir(q) or d in ('avx2_t4', 'include'):
                    continue
                for f in sorted(os.listdir(q)):
                    if f.endswith('.asm'):
                        txt = open(os.path.join(q, f), errors='replace').read()
                        for m in re.finditer(r'%include\s+"([^"]+)"', txt):
                            for s in incs.get(m.group(1), ()):
                                _inc.setdefault(s, []).append(d + '/' + f)
        return list(_inc.get(sym, ()))


def link_units(ctx, rels, out, drop=()):
    objs = {r: nasm(ctx, r, drop=drop) for r in rels}
    idx = data_index()
    for _ in range(6):
        rc, o, _, _ = sh(['nm', '-u'] + list(objs.values()))
        und = set(l.split()[-1] for l in o.splitlines() if l.strip().startswith('U '))
        rc, o, _, _ = sh(['nm', '--defined-only'] + list(objs.values()))
        defd = set(l.split()[-1] for l in o.splitlines() if len(l.split()) == 3)
        new = [idx[s] for s in und - defd if s in idx and idx[s] not in objs]
        if not new:
            # data exported from an included .inc: try the units that include it until one really defines the symbol
            for s in sorted(und - defd):
                for cand in inc_candidates(s):
                    if cand in objs:
                        continue
                    ob = nasm(ctx, cand)
                    rc, o2, _, _ = sh(['nm', '--defined-only', ob])
                    if any(l.split()[-1] == s for l in o2.splitlines() if len(l.split()) == 3):
                        new.append(cand)
                        break
                if new:
                    break
        if not new:
            break
        for r in sorted(set(new)):
            objs[r] = nasm(ctx, r)
    link_reloc(ctx, list(objs.values()), out)
    rc, o, _, _ = sh(['nm', '-u', out])
    left = sorted(set(l.split()[-1] for l in o.splitlines() if l.strip().startswith('U ')) - {'imb_errno', 'imb_errno_types', '_GLOBAL_OFFSET_TABLE_'})
    ctx.unresolved = left        # a harness that reaches one of these reads/calls memory nobody defined: it must not report a verdict
    return out, sorted(objs)
