"""Link a set of .asm units together with the units that define the global DATA they reference (cross-unit constant tables)."""
import os, re, threading
from vlib.core import *
from vlib.core import run as sh

_idx = None
_lock = threading.Lock()


def data_index():
    global _idx
    with _lock:
        if _idx is None:
            _idx = {}
            for d in sorted(os.listdir(LIB)):
                p = os.path.join(LIB, d)
                if not os.path.isdir(p) or d == 'avx2_t4':
                    continue
                for f in sorted(os.listdir(p)):
                    if f.endswith('.asm'):
                        try:
                            txt = open(os.path.join(p, f), errors='replace').read()
                        except OSError:
                            continue
                        for m in re.finditer(r'MKGLOBAL\(\s*(\w+)\s*,\s*data\s*,', txt):
                            _idx.setdefault(m.group(1), d + '/' + f)
        return _idx


def link_units(ctx, rels, out, drop=()):
    objs = {r: nasm(ctx, r, drop=drop) for r in rels}
    idx = data_index()
    for _ in range(6):
        rc, o, _, _ = sh(['nm', '-u'] + list(objs.values()))
        und = set(l.split()[-1] for l in o.splitlines() if l.strip().startswith('U '))
        rc, o, _, _ = sh(['nm', '--defined-only'] + list(objs.values()))
        defd = set(l.split()[-1] for l in o.splitlines() if len(l.split()) == 3)
        new = [idx[s] for s in und - defd if s in idx and idx[s] not in objs]
        if not new:
            break
        for r in sorted(set(new)):
            objs[r] = nasm(ctx, r)
    link_reloc(ctx, list(objs.values()), out)
    return out, sorted(objs)
