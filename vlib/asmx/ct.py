"""C19: constant-time (2-safety by taint) sweep of machine code: no branch condition and no effective address may depend on
a symbol carrying the secret tag.  Sweep mode (havoc over-approximation) with taint inheritance."""
import time
from z3 import BitVec, BitVecVal
from vlib.asmx.engine import Engine, State, Region, CellRegion, bv, fresh, conc, tainted, reset_size_cache, Unsupported, BoundExceeded, RET_SENTINEL, SECRET_TAG
from vlib.asmx import abi

ARGREGS = [7, 6, 2, 1, 8, 9]


def _libc_mem(E, st, target):
    """memcpy/memmove/memset with their C contract (byte copy/fill of a concrete length; a secret-dependent length or
    pointer is itself a leak and is reported through the address hook by the loads/stores below)."""
    from vlib.asmx.engine import simp
    n = conc(simp(st.r[2]))
    if n is None:
        if tainted(st.r[2]):
            E.on_addr(st, None, st.r[2], 0, True)
        raise Unsupported('%s with a symbolic length' % target)
    if n > 4096:
        raise Unsupported('%s length %d' % (target, n))
    dst, src = st.r[7], st.r[6]
    if target == 'memset':
        from z3 import Extract
        b = Extract(7, 0, st.r[6])
        for i in range(n):
            E.store(st, simp(dst + i), 1, b, None)
    else:
        data = [E.load(st, simp(src + i), 1, None) for i in range(n)]
        for i in range(n):
            E.store(st, simp(dst + i), 1, data[i], None)
    st.r[0] = dst
    for i in (1, 2, 6, 7, 8, 9, 10, 11):
        st.r[i] = fresh(64, 'ret')
    for i in range(32):
        st.v[i] = fresh(512, 'vret')
    st.flags = None


def run(obj, sym, args, insn_budget=2000000, loop_bound=2, time_budget=7200.0):   # the instruction budget is the bound; wall time only a safety net (load-independent verdicts)
    """args: list of ('ptr', name, size, secret, writable) | ('val', int) | ('sym', name, secret) in System V order.
    Returns dict(result held|violated|inconclusive, leaks[...], steps, paths)."""
    reset_size_cache()
    E = Engine(obj, mode='sweep', max_steps=insn_budget, loop_bound=loop_bound)
    E.memo = {}
    E.track_taint = True
    E.exact_moves = True
    E.called = set()
    E.summaries = {}
    # no generic stub: a call to a routine that is not part of the linked unit would silently drop memory effects (and taint);
    # such a run is inconclusive rather than a pass
    for f in ('memcpy', 'memmove', 'memset'):
        E.stubs[f] = _libc_mem
    st, rsp0 = abi.fresh_state(obj, 0)
    base = 0x300000
    stack = st.regions[0]

    def setarg(i, v):
        if i < 6:
            st.r[ARGREGS[i]] = v
        else:       # System V: 7th argument onwards in 8-byte stack slots above the return address
            stack.put(rsp0 + 8 * (i - 5) - abi.STACK_BASE, 8, v)
    for i, a in enumerate(args):
        if a[0] == 'ptr':
            _, name, size, secret, writable = a
            nm = name + (SECRET_TAG if secret else '')
            rg = Region(nm, base, size, writable=writable)
            st.regions.append(rg)
            setarg(i, bv(base, 64))
            base += 0x10000
        elif a[0] == 'ptrs':     # array of pointers to secret regions (3DES key triple)
            _, name, n, size, secret = a
            arr = Region(name + '_arr', base, 8 * n, writable=False)
            st.regions.append(arr)
            setarg(i, bv(base, 64))
            b0 = base
            base += 0x10000
            for k in range(n):
                rg = Region('%s%d%s' % (name, k, SECRET_TAG if secret else ''), base, size, writable=False)
                st.regions.append(rg)
                for j in range(8):
                    arr.bytes[8 * k + j] = BitVecVal((base >> (8 * j)) & 0xff, 8)
                base += 0x10000
        elif a[0] == 'val':
            setarg(i, bv(a[1], 64))
        elif a[0] == 'sym':
            setarg(i, BitVec(a[1] + (SECRET_TAG if a[2] else ''), 64))
    leaks = {}

    def on_branch(s, ins, cond):
        if tainted(cond):
            leaks.setdefault(('branch', ins.addr), ins.text)

    def on_addr(s, ins, e, n, is_store):
        if conc(e) is None and tainted(e):
            leaks.setdefault(('address', ins.addr if ins else 0), ins.text if ins else '')
    E.on_branch = on_branch
    E.on_addr = on_addr
    t0 = time.time()
    out = dict(name=sym, paths=0, steps=0, leaks=[])
    try:
        fin = abi.run_with_budget(E, st, obj.syms[sym][1], t0 + time_budget, insn_budget)
    except (Unsupported, BoundExceeded) as e:
        out.update(result='inconclusive', detail=str(e)[:300], steps=E.insn_count, leaks=sorted(leaks.items())[:10])
        if leaks:
            out['result'] = 'violated'
        return out
    out.update(paths=len(fin), steps=E.insn_count, secs=time.time() - t0, havoc=sum(E.havoc_count.values()))
    if leaks:
        out.update(result='violated', leaks=sorted(leaks.items())[:12])
    elif not fin:
        out.update(result='inconclusive', detail='no path reached a return')
    elif any(a[0] == 'ptr' and a[4] for a in args) and not any(
            rg.written for s in fin for rg in s.regions if isinstance(rg, Region) and rg.name in [a[1] for a in args if a[0] == 'ptr' and a[4]]):
        # vacuity guard: only early-exit paths were explored (e.g. the working path was cut at the loop bound)
        out.update(result='inconclusive', detail='no explored path wrote an output buffer')
    else:
        out['result'] = 'held'
    return out
