"""Instruction semantics for asmx (Intel syntax operands parsed by decode.py)."""
from z3 import (BitVecVal, BoolVal, And, Or, Not, Xor, If, Concat, Extract, ZeroExt, SignExt, LShR, ULT, ULE, UGT, UGE, RotateLeft, RotateRight,
                simplify, is_bv_value, is_true, is_false, sat)
from vlib.asmx.engine import (Unsupported, bv, simp as _simp, conc, fresh, small, fresh_like, tainted, AESENC, AESENCLAST, AESDEC, AESDECLAST, AESIMC, SBOX32, CLMUL, RET_SENTINEL)
from vlib.asmx.decode import GPR

_SWEEP = [False]


def simp(e):
    # in sweep mode large terms are abstracted by putg/store anyway: do not pay for simplifying them
    if _SWEEP[0] and not small(e, 60):
        return e
    return _simp(e)

NOWRITE = {'cmp', 'test', 'bt', 'ptest', 'vptest', 'ucomiss', 'ucomisd', 'comiss', 'comisd', 'vucomiss', 'vucomisd', 'prefetcht0', 'prefetcht1',
           'prefetcht2', 'prefetchnta', 'prefetchw', 'nop', 'endbr64', 'sfence', 'lfence', 'mfence', 'pause', 'vzeroupper_', 'ktestw', 'ktestq', 'ktestd',
           'ktestb', 'kortestw', 'kortestq', 'kortestd', 'kortestb', 'clflush', 'clflushopt'}
FLAGS_ONLY = {'ptest', 'vptest', 'ucomiss', 'ucomisd', 'comiss', 'comisd', 'vucomiss', 'vucomisd', 'ktestw', 'ktestq', 'ktestd', 'ktestb', 'kortestw',
              'kortestq', 'kortestd', 'kortestb'}
FP_ARITH = {'addps', 'addpd', 'addss', 'addsd', 'subps', 'subpd', 'mulps', 'mulpd', 'divps', 'divpd', 'sqrtps', 'sqrtpd', 'cvtdq2ps', 'cvtps2dq',
            'vaddps', 'vaddpd', 'vmulps', 'vmulpd', 'vsubps', 'vsubpd', 'vdivps', 'vdivpd', 'vfmadd132pd', 'vfmadd213pd', 'vfmadd231pd',
            'vcvtdq2ps', 'vcvtps2dq', 'vcvtpd2dq', 'vcvtdq2pd', 'vcvtuqq2pd', 'vcvtqq2pd', 'vcvttpd2uqq', 'vcvttpd2qq', 'vrndscalepd'}
X87_MMX = {'fld', 'fstp', 'fild', 'fistp', 'fadd', 'fmul', 'fsub', 'fdiv', 'emms', 'fninit', 'fnsave', 'frstor', 'fxsave', 'fxrstor', 'xsave', 'xrstor',
           'fsubp', 'fidivr', 'movq2dq', 'movdq2q'}


def lanes(x, w, n):
    return [Extract(w * i + w - 1, w * i, x) for i in range(n)]


def join(ls):
    return Concat(*reversed(ls)) if len(ls) > 1 else ls[0]


def vwidth(ins):
    ws = [o.width for o in ins.ops if o.kind == 'vec']
    return max(ws) if ws else 128


def is_vex(ins):
    return ins.mnem.startswith('v')


def execute(E, st, ins):
    m, o = ins.mnem, ins.ops
    nxt = ins.next
    _SWEEP[0] = E.mode == 'sweep'

    def done():
        st.ip = nxt
        return [st]

    # ---------------- control flow ----------------
    if m in ('nop', 'endbr64', 'pause', 'sfence', 'lfence', 'mfence') or m.startswith('prefetch'):
        return done()
    if m == 'xchg' and len(o) == 2 and o[0].text == o[1].text:
        return done()
    if m == 'jmp':
        k, t = E.o.branch_target(ins)
        if k == 'int':
            st.ip = t
            return [st]
        if k == 'ext':
            return call_external(E, st, ins, t, tail=True)
        if E.mode == 'sweep' and '*ind*' in E.stubs:
            return call_external(E, st, ins, '*ind*', tail=True)
        raise Unsupported('indirect jmp at %x: %s' % (ins.addr, ins.text))
    if m == 'call':
        k, t = E.o.branch_target(ins)
        st.r[4] = simp(st.r[4] - 8)
        E.store(st, st.r[4], 8, bv(E.o.TEXT_BASE + nxt, 64), ins)
        if k == 'ind':
            if E.mode == 'sweep' and '*ind*' in E.stubs:
                return call_external(E, st, ins, '*ind*', tail=False)
            raise Unsupported('indirect call at %x: %s' % (ins.addr, ins.text))
        if k == 'ext' or t in E.stubs:
            return call_external(E, st, ins, t, tail=False)
        st.callstack += 1
        st.ctx = st.ctx + (nxt,)
        st.ip = t
        return [st]
    if m == 'ret':
        ra = simp(E.load(st, st.r[4], 8, ins))
        st.r[4] = simp(st.r[4] + 8)
        c = conc(ra)
        if c is None:
            st.faults.append(('return address is not the one pushed by the caller (stack imbalance or overwritten)', 0, 8, ins.addr, str(ra)[:80]))
            st.ip = None
            return [st]
        if c == RET_SENTINEL:
            st.ip = None
        else:
            st.callstack -= 1
            st.ctx = st.ctx[:-1]
            st.ip = c - E.o.TEXT_BASE
        return [st]
    if m in ('loop', 'loopne', 'loope', 'jrcxz'):
        raise Unsupported(ins.text)
    if m[0] == 'j':
        k, t = E.o.branch_target(ins)
        if k != 'int':
            raise Unsupported('conditional branch to external at %x' % ins.addr)
        return E.branch(st, ins, E.cc(st, m[1:]), t, nxt)

    # ---------------- GPR data movement ----------------
    if m in ('mov', 'movabs') and o[0].kind in ('gpr', 'mem') and o[1].kind in ('gpr', 'mem', 'imm'):
        w = o[0].width or o[1].width
        E.put(st, ins, o[0], E.get(st, ins, o[1], w), w)
        return done()
    if m == 'movzx':
        E.putg(st, o[0], ZeroExt(o[0].width - (o[1].width or 8), E.get(st, ins, o[1], o[1].width)))
        return done()
    if m in ('movsx', 'movsxd'):
        E.putg(st, o[0], SignExt(o[0].width - o[1].width, E.get(st, ins, o[1], o[1].width)))
        return done()
    if m == 'movbe':
        w = o[0].width or o[1].width
        v = E.get(st, ins, o[1], w)
        E.put(st, ins, o[0], join(list(reversed(lanes(v, 8, w // 8)))), w)
        return done()
    if m == 'lea':
        E.putg(st, o[0], Extract(o[0].width - 1, 0, E.ea(st, ins, o[1])))
        return done()
    if m == 'push':
        w = 64
        v = E.get(st, ins, o[0], 64) if o[0].kind != 'imm' else bv(o[0].imm, 64)
        st.r[4] = simp(st.r[4] - 8)
        E.store(st, st.r[4], 8, v, ins)
        return done()
    if m == 'pop':
        v = E.load(st, st.r[4], 8, ins)
        st.r[4] = simp(st.r[4] + 8)
        E.put(st, ins, o[0], v, 64)
        return done()
    if m == 'xchg':
        w = o[0].width or o[1].width
        a, b = E.get(st, ins, o[0], w), E.get(st, ins, o[1], w)
        E.put(st, ins, o[0], b, w)
        E.put(st, ins, o[1], a, w)
        return done()
    if m.startswith('cmov'):
        w = o[0].width
        c = E.cc(st, m[4:])
        E.putg(st, o[0], If(c, E.get(st, ins, o[1], w), E.getg(st, o[0])))
        return done()
    if m.startswith('set') and len(o) == 1:
        c = E.cc(st, m[3:])
        E.put(st, ins, o[0], If(c, bv(1, 8), bv(0, 8)), 8)
        return done()
    if m == 'bswap':
        v = E.getg(st, o[0])
        E.putg(st, o[0], join(list(reversed(lanes(v, 8, o[0].width // 8)))))
        return done()
    if m in ('cdq', 'cqo', 'cdqe', 'cwde'):
        if m == 'cdqe':
            st.r[0] = simp(SignExt(32, Extract(31, 0, st.r[0])))
        elif m == 'cwde':
            st.r[0] = simp(ZeroExt(32, SignExt(16, Extract(15, 0, st.r[0]))))
        elif m == 'cdq':
            st.r[2] = simp(ZeroExt(32, If(Extract(31, 31, st.r[0]) == 1, bv(0xffffffff, 32), bv(0, 32))))
        else:
            st.r[2] = simp(If(Extract(63, 63, st.r[0]) == 1, bv(M64, 64), bv(0, 64)))
        return done()
    if m in ('cld', 'std'):
        st.df = (m == 'std')
        if m == 'std':
            st.events.append(('std', ins.addr))
        return done()
    if m in ('clc', 'stc', 'cmc'):
        raise Unsupported(ins.text)

    # ---------------- GPR arithmetic ----------------
    if m in ('add', 'sub', 'cmp', 'adc', 'sbb') and o[0].kind in ('gpr', 'mem'):
        w = o[0].width or o[1].width
        a, b = E.get(st, ins, o[0], w), E.get(st, ins, o[1], w)
        if o[1].kind == 'imm':
            b = bv(o[1].imm, w)
        cin = None
        if m in ('adc', 'sbb'):
            cin = If(E.flag(st, 'cf'), bv(1, 1), bv(0, 1))
        if m in ('add', 'adc'):
            r = simp(a + b + (ZeroExt(w - 1, cin) if cin is not None else bv(0, w)))
            E.set_flags_arith(st, 'add', a, b, r, w, cin)
        else:
            r = simp(a - b - (ZeroExt(w - 1, cin) if cin is not None else bv(0, w)))
            E.set_flags_arith(st, 'sub', a, b, r, w, cin)
        if m != 'cmp':
            E.put(st, ins, o[0], r, w)
        return done()
    if m in ('xor', 'sub') and o[0].kind == 'gpr' and o[1].kind == 'gpr' and o[0].text == o[1].text:
        w = o[0].width      # zeroing idiom: the result does not depend on the old value
        z = bv(0, w)
        E.set_flags_arith(st, 'logic', z, z, z, w)
        E.putg(st, o[0], z)
        return done()
    if m in ('and', 'or', 'xor', 'test') and o[0].kind in ('gpr', 'mem'):
        w = o[0].width or o[1].width
        a, b = E.get(st, ins, o[0], w), E.get(st, ins, o[1], w)
        if o[1].kind == 'imm':
            b = bv(o[1].imm, w)
        r = simp({'and': a & b, 'test': a & b, 'or': a | b, 'xor': a ^ b}[m])
        E.set_flags_arith(st, 'logic', a, b, r, w)
        if m != 'test':
            E.put(st, ins, o[0], r, w)
        return done()
    if m in ('inc', 'dec'):
        w = o[0].width
        a = E.get(st, ins, o[0], w)
        cf = E.flag(st, 'cf')
        r = simp(a + 1 if m == 'inc' else a - 1)
        st.flags = (m, a, bv(1, w), r, w, cf)
        E.put(st, ins, o[0], r, w)
        return done()
    if m == 'neg':
        w = o[0].width
        a = E.get(st, ins, o[0], w)
        r = simp(-a)
        E.set_flags_arith(st, 'sub', bv(0, w), a, r, w)
        E.put(st, ins, o[0], r, w)
        return done()
    if m == 'not' and o[0].kind in ('gpr', 'mem'):
        w = o[0].width
        E.put(st, ins, o[0], ~E.get(st, ins, o[0], w), w)
        return done()
    if m in ('shl', 'sal', 'shr', 'sar', 'rol', 'ror') and o[0].kind in ('gpr', 'mem'):
        w = o[0].width
        a = E.get(st, ins, o[0], w)
        if len(o) == 1:
            cnt = bv(1, 8)
        elif o[1].kind == 'imm':
            cnt = bv(o[1].imm, 8)
        else:
            cnt = E.getg(st, o[1])  # cl
        cnt = simp(cnt & (63 if w == 64 else 31))
        cw = ZeroExt(w - 8, cnt) if w > 8 else cnt
        if m in ('shl', 'sal'):
            r = a << cw
        elif m == 'shr':
            r = LShR(a, cw)
        elif m == 'sar':
            r = a >> cw
        elif m == 'rol':
            r = RotateLeft(a, cw)
        else:
            r = RotateRight(a, cw)
        r = simp(r)
        c = conc(cnt)
        if c is None:
            st.flags = None
        elif c != 0:
            if m in ('shl', 'sal'):
                cf = simp(Extract(w - c, w - c, a) == 1) if c <= w else BoolVal(False)
            elif m in ('shr', 'sar'):
                cf = simp(Extract(c - 1, c - 1, a) == 1)
            else:
                cf = None
            if m in ('rol', 'ror'):
                st.flags = None
            else:
                st.flags = ('expl', {'cf': cf, 'zf': simp(r == 0), 'sf': simp(Extract(w - 1, w - 1, r) == 1)}, None, r, w, None)
        E.put(st, ins, o[0], r, w)
        return done()
    if m in ('shld', 'shrd'):
        w = o[0].width
        a, b = E.get(st, ins, o[0], w), E.get(st, ins, o[1], w)
        cnt = bv(o[2].imm, 8) if o[2].kind == 'imm' else E.getg(st, o[2])
        c = conc(simp(cnt & (63 if w == 64 else 31)))
        if c is None:
            raise Unsupported('shld/shrd by cl with symbolic count')
        if c:
            r = Extract(2 * w - 1, w, Concat(a, b) << c) if m == 'shld' else Extract(w - 1, 0, LShR(Concat(b, a), c))
            E.put(st, ins, o[0], r, w)
            st.flags = None
        return done()
    if m in ('shlx', 'shrx', 'sarx'):
        w = o[0].width
        a = E.get(st, ins, o[1], w)
        cnt = E.getg(st, o[2]) & (w - 1)
        E.putg(st, o[0], a << cnt if m == 'shlx' else (LShR(a, cnt) if m == 'shrx' else a >> cnt))
        return done()
    if m == 'rorx':
        w = o[0].width
        E.putg(st, o[0], RotateRight(E.get(st, ins, o[1], w), o[2].imm % w))
        return done()
    if m == 'andn' and o[0].kind == 'gpr':
        w = o[0].width
        r = simp(~E.getg(st, o[1]) & E.get(st, ins, o[2], w))
        E.set_flags_arith(st, 'logic', r, r, r, w)
        E.putg(st, o[0], r)
        return done()
    if m == 'bzhi':
        w = o[0].width
        src = E.get(st, ins, o[1], w)
        n = Extract(7, 0, E.getg(st, o[2]))
        nn = ZeroExt(w - 8, n)
        r = simp(If(UGE(nn, w), src, src & ((bv(1, w) << nn) - 1)))
        E.putg(st, o[0], r)
        st.flags = None
        return done()
    if m in ('bt', 'bts', 'btr', 'btc'):
        w = o[0].width
        a = E.get(st, ins, o[0], w)
        if o[1].kind == 'imm':
            n = bv(o[1].imm % w, w)
        else:
            if o[0].kind == 'mem':
                if E.mode == 'sweep':
                    st.flags = None   # bit-string addressing: flags unknown, the addressed byte is not tracked in sweep mode
                    return done()
                raise Unsupported('bt mem, reg')
            n = E.getg(st, o[1]) & (w - 1)
        cf = simp(Extract(0, 0, LShR(a, n)) == 1)
        st.flags = ('expl', {'cf': cf}, None, a, w, None)
        if m != 'bt':
            bit = bv(1, w) << n
            E.put(st, ins, o[0], {'bts': a | bit, 'btr': a & ~bit, 'btc': a ^ bit}[m], w)
        return done()
    if m in ('bsf', 'tzcnt', 'bsr', 'lzcnt', 'popcnt'):
        w = o[0].width
        a = E.get(st, ins, o[1], w)
        if m in ('bsf', 'tzcnt'):
            r = bv(w, w)
            for i in reversed(range(w)):
                r = If(Extract(i, i, a) == 1, bv(i, w), r)
        elif m in ('bsr', 'lzcnt'):
            r = bv(w, w) if m == 'lzcnt' else bv(0, w)
            for i in range(w):
                r = If(Extract(i, i, a) == 1, bv(i if m == 'bsr' else w - 1 - i, w), r)
        else:
            r = bv(0, w)
            for i in range(w):
                r = r + ZeroExt(w - 1, Extract(i, i, a))
        if m in ('bsf', 'bsr'):
            r = If(a == 0, E.getg(st, o[0]), r)
        r = simp(r)
        st.flags = ('expl', {'zf': simp(a == 0) if m in ('bsf', 'bsr') else simp(r == 0), 'cf': simp(a == 0)}, None, r, w, None)
        E.putg(st, o[0], r)
        return done()
    if m in ('imul',) and len(o) >= 2:
        w = o[0].width
        if len(o) == 2:
            a, b = E.getg(st, o[0]), E.get(st, ins, o[1], w)
        else:
            a, b = E.get(st, ins, o[1], w), bv(o[2].imm, w)
        if getattr(E, 'mul_abstract', None) and w == 64 and len(o) == 2:
            E.putg(st, o[0], E.mul_abstract(a, b, 64))      # product as an uninterpreted function of its factors (props/asm_poly.py)
            st.flags = None
            return done()
        E.putg(st, o[0], a * b)
        st.flags = None
        return done()
    if m in ('mul', 'imul') and len(o) == 1:
        w = o[0].width
        a = Extract(w - 1, 0, st.r[0])
        b = E.get(st, ins, o[0], w)
        ext = ZeroExt if m == 'mul' else SignExt
        p = simp(ext(w, a) * ext(w, b))
        if getattr(E, 'mul_abstract', None) and w == 64 and m == 'mul':
            p = E.mul_abstract(a, b, 128)
        if w == 8:
            raise Unsupported('8-bit mul')
        lo, hi = Extract(w - 1, 0, p), Extract(2 * w - 1, w, p)
        if w == 64:
            st.r[0], st.r[2] = simp(lo), simp(hi)
        elif w == 32:
            st.r[0], st.r[2] = simp(ZeroExt(32, lo)), simp(ZeroExt(32, hi))
        else:
            st.r[0] = simp(Concat(Extract(63, 16, st.r[0]), lo))
            st.r[2] = simp(Concat(Extract(63, 16, st.r[2]), hi))
        st.flags = None
        return done()
    if m == 'mulx':
        w = o[0].width
        a = Extract(w - 1, 0, st.r[2])
        b = E.get(st, ins, o[2], w)
        p = simp(ZeroExt(w, a) * ZeroExt(w, b))
        E.putg(st, o[1], Extract(w - 1, 0, p))
        E.putg(st, o[0], Extract(2 * w - 1, w, p))
        return done()
    if m in ('adcx', 'adox'):
        raise Unsupported(ins.text)
    if m in ('div', 'idiv'):
        if E.mode == 'sweep':
            st.r[0], st.r[2] = fresh(64), fresh(64)
            st.flags = None
            return done()
        raise Unsupported(ins.text)
    if m == 'cpuid':
        for i in (0, 1, 2, 3):
            st.r[i] = simp(ZeroExt(32, fresh(32, 'cpuid')))
        return done()
    if m == 'xgetbv':
        st.r[0] = simp(ZeroExt(32, fresh(32, 'xcr')))
        st.r[2] = simp(ZeroExt(32, fresh(32, 'xcr')))
        return done()
    if m in ('ldmxcsr', 'vldmxcsr', 'fxrstor', 'xrstor', 'fldcw'):
        st.mxcsr_written = True
        st.events.append(('mxcsr-write', ins.addr, ins.text))
        return done()
    if m in ('stmxcsr', 'vstmxcsr'):
        E.store(st, E.ea(st, ins, o[0]), 4, fresh(32, 'mxcsr'), ins)
        return done()
    if m in X87_MMX or m in FP_ARITH:
        st.events.append(('fp-or-x87', ins.addr, ins.text))
        if E.mode != 'sweep' and m not in FP_ARITH:
            raise Unsupported(ins.text)
    if m in ('stos', 'movs') and ('rep' in ins.prefix or 'repz' in ins.prefix):
        # rep stos / rep movs: general-purpose effects are exact (rdi/rsi advance by rcx*size with DF clear, rcx = 0);
        # the memory effect is a bounded unrolling in precise mode and dropped in sweep mode
        size = (o[0].width or 8) // 8
        if st.df:
            raise Unsupported('string instruction with DF set')
        cnt = st.r[1]
        c = conc(cnt)
        if E.mode != 'sweep':
            if c is None or c > 4096:
                raise Unsupported('rep string instruction with symbolic/large count')
            for i in range(c):
                if m == 'stos':
                    E.store(st, st.r[7] + i * size, size, Extract(8 * size - 1, 0, st.r[0]), ins)
                else:
                    E.store(st, st.r[7] + i * size, size, E.load(st, st.r[6] + i * size, size, ins), ins)
        st.r[7] = simp(st.r[7] + cnt * size)
        if m == 'movs':
            st.r[6] = simp(st.r[6] + cnt * size)
        st.r[1] = bv(0, 64)
        return done()
    if 'rep' in ins.prefix or 'repz' in ins.prefix or 'repnz' in ins.prefix or m in ('movs', 'stos', 'lods', 'scas', 'cmps'):
        raise Unsupported('string instruction ' + ins.text)
    if 'lock' in ins.prefix:
        st.events.append(('lock-rmw', ins.addr, m))
    if m == 'cmpxchg' and E.mode == 'sweep':
        # compare-and-swap: rax and the flags become unknown (either outcome), the memory operand is rewritten
        st.r[0] = fresh(64, 'cas')
        st.flags = None
        return done()
    if 'lock' in ins.prefix and m == 'xadd':
        w = o[0].width or o[1].width
        a, b = E.get(st, ins, o[0], w), E.getg(st, o[1])
        E.put(st, ins, o[0], a + b, w)
        E.putg(st, o[1], a)
        st.flags = None
        st.events.append(('lock-xadd', ins.addr))
        return done()

    # ---------------- vector ----------------
    from vlib.asmx import vsem
    r = vsem.execute(E, st, ins)
    if r is not None:
        if _SWEEP[0] and o and o[0].kind == 'vec' and not small(st.v[o[0].reg], 150):
            st.v[o[0].reg] = fresh_like(512, [st.v[o[0].reg]], 'v')     # keep sweep-mode terms bounded
        st.ip = nxt
        return [st]

    # ---------------- fallback ----------------
    E.unsupported_seen[m] = E.unsupported_seen.get(m, 0) + 1
    if E.mode != 'sweep':
        raise Unsupported('no exact semantics for "%s" at .text+%x' % (ins.text, ins.addr))
    havoc_dest(E, st, ins)
    return done()


M64 = (1 << 64) - 1
ZERO_IDIOMS = {'pxor', 'xorps', 'xorpd', 'vpxor', 'vxorps', 'vxorpd', 'vpxord', 'vpxorq', 'psubb', 'psubw', 'psubd', 'psubq', 'vpsubd', 'vpsubq', 'pcmpgtd'}


def source_terms(E, st, ins):
    """values the instruction reads (for taint inheritance of a havoc'd destination)"""
    out = []
    m = ins.mnem
    # VEX/EVEX three-operand forms only write operand 0 (unless merge-masked or an accumulate/ternary form)
    wo = (m.startswith('v') and len(ins.ops) >= 2 and ins.ops[0].kind == 'vec' and not any(x.mask is not None for x in ins.ops)
          and not m.startswith(('vfm', 'vfnm', 'vpternlog', 'vpmadd52', 'vpdp', 'vpermi2', 'vpermt2', 'vpgather', 'vgather')))
    for k, x in enumerate(ins.ops):
        if k == 0 and wo:
            continue
        try:
            if x.kind == 'gpr':
                out.append(st.r[x.reg])
            elif x.kind == 'vec':
                # only the bits the instruction reads: a legacy-SSE/xmm operand does not read the (possibly secret) upper lanes
                w = x.width or 512
                out.append(st.v[x.reg] if w >= 512 else _simp(Extract(w - 1, 0, st.v[x.reg])))
            elif x.kind == 'k':
                out.append(st.k[x.reg])
            elif x.kind == 'mem' and not (k == 0 and ins.mnem.startswith(('mov', 'vmov')) ):
                w = x.width or vwidth(ins)
                out.append(E.load(st, E.ea(st, ins, x), w // 8, ins))
        except Unsupported:
            pass
    return out


def havoc_dest(E, st, ins):
    m, o = ins.mnem, ins.ops
    E.havoc_count[m] = E.havoc_count.get(m, 0) + 1
    srcs = source_terms(E, st, ins) if E.track_taint else []
    if m in ZERO_IDIOMS and len(o) >= 2 and o[-1].kind == 'vec' and o[-2].kind == 'vec' and o[-1].reg == o[-2].reg and o[0].kind == 'vec':
        st.v[o[0].reg] = bv(0, 512) if m.startswith('v') else _simp(Concat(Extract(511, 128, st.v[o[0].reg]), bv(0, 128)))
        return
    if m in FLAGS_ONLY or m in NOWRITE:
        if m in FLAGS_ONLY:
            st.flags = 'S' if any(tainted(x) for x in srcs) else None
        return
    if not o:
        return
    d = o[0]
    if d.kind == 'gpr':
        # a general-purpose destination written by an instruction we do not model exactly: fresh value, flags unknown
        E.putg(st, d, fresh_like(d.width, srcs, 'g'))
        st.flags = 'S' if any(tainted(x) for x in srcs) else None
    elif d.kind == 'vec':
        if E.track_taint and not m.startswith('v') and (d.width or 128) == 128:
            # legacy SSE keeps bits 511..128 of the destination: keep them (and their tag) apart from the new low lane
            st.v[d.reg] = _simp(Concat(Extract(511, 128, st.v[d.reg]), fresh_like(128, srcs, 'v')))
        else:
            st.v[d.reg] = fresh_like(512, srcs, 'v')
    elif d.kind == 'k':
        st.k[d.reg] = fresh_like(64, srcs, 'k')
    elif d.kind == 'mem':
        w = d.width or vwidth(ins)
        E.store(st, E.ea(st, ins, d), w // 8, fresh_like(w, srcs, 'm'), ins)


def call_external(E, st, ins, target, tail):
    """A call/jmp to something outside the unit or explicitly stubbed: run the contract stub, then return."""
    stub = E.stubs.get(target)
    if stub is None and isinstance(target, str):
        stub = E.stubs.get('*')
    if stub is None:
        raise Unsupported('call to %s without a contract stub at %x' % (target, ins.addr))
    stub(E, st, target)
    ra = simp(E.load(st, st.r[4], 8, ins))
    st.r[4] = simp(st.r[4] + 8)
    c = conc(ra)
    if c is None:
        raise Unsupported('symbolic return address after external call')
    if c == RET_SENTINEL:
        st.ip = None
    else:
        st.ip = c - E.o.TEXT_BASE
        if tail:
            st.callstack -= 1
    return [st]
