"""asmx: path-wise symbolic execution of x86-64 machine code (objdump listing) over z3 bit-vector terms.

Two modes share one step function:
  precise : every executed instruction must have exact semantics here, every memory access must fall into a declared
            region (exact sizes) - anything else raises Unsupported / records a fault.
  sweep   : instructions without exact semantics HAVOC their destination (fresh unconstrained symbol of the right width),
            loads from addresses that are not concrete return fresh symbols, such stores are dropped.  This over-approximates
            data flow while keeping control flow, stack and general-purpose register data flow exact - what the calling
            convention obligations (C18) need.
"""
import re, time, itertools
from z3 import (BitVec, BitVecVal, BitVecSort, BoolVal, Bool, And, Or, Not, Xor, If, Concat, Extract, ZeroExt, SignExt, LShR, ULT, ULE, UGT, UGE,
                Solver, simplify, is_bv_value, is_true, is_false, sat, unsat, unknown, Function, RotateLeft, RotateRight, BVAddNoOverflow, is_bv)
from vlib.asmx.decode import Obj, GPR, R64

M64 = (1 << 64) - 1


class Unsupported(Exception):
    pass


class BoundExceeded(Exception):
    pass


def bv(v, w):
    return BitVecVal(v & ((1 << w) - 1), w)


def simp(e):
    return simplify(e)


def conc(e):
    return e.as_long() if is_bv_value(e) else None


_SIZE = {}


def tsize(e, cap=200):
    """Tree size of a term, memoised by AST id (the cache keeps the term alive so ids are not reused); saturates at cap."""
    k = e.get_id()
    hit = _SIZE.get(k)
    if hit is not None:
        return hit[1]
    n = 1
    for c in e.children():
        n += tsize(c, cap)
        if n >= cap:
            n = cap
            break
    _SIZE[k] = (e, n)
    return n


def small(e, cap=40):
    """True iff the term has at most cap nodes (used by sweep mode to cut off ever-growing data-flow terms)."""
    return tsize(e) <= cap


def reset_size_cache():
    _SIZE.clear()
    _TAINT.clear()


_TAINT = {}
SECRET_TAG = '$S'


def tainted(e):
    """True iff the term mentions a symbol whose name carries the secret tag (memoised on the AST id)."""
    k = e.get_id()
    hit = _TAINT.get(k)
    if hit is not None:
        return hit[1]
    if e.num_args() == 0:
        r = SECRET_TAG in e.decl().name() if not is_bv_value(e) and e.decl().arity() == 0 else False
    else:
        r = any(tainted(c) for c in e.children())
    _TAINT[k] = (e, r)
    return r


def fresh_like(w, srcs, tag='h'):
    """fresh unknown that inherits the secret tag from the values it was computed from"""
    return fresh(w, tag + (SECRET_TAG if any(tainted(x) for x in srcs if x is not None) else ''))


_fresh = itertools.count()


def fresh(w, tag='h'):
    return BitVec('%s!%d' % (tag, next(_fresh)), w)


# uninterpreted block primitives (U-mode)
AESENC = Function('aesenc', BitVecSort(128), BitVecSort(128), BitVecSort(128))
AESENCLAST = Function('aesenclast', BitVecSort(128), BitVecSort(128), BitVecSort(128))
AESDEC = Function('aesdec', BitVecSort(128), BitVecSort(128), BitVecSort(128))
AESDECLAST = Function('aesdeclast', BitVecSort(128), BitVecSort(128), BitVecSort(128))
AESIMC = Function('aesimc', BitVecSort(128), BitVecSort(128))
SBOX32 = Function('subword', BitVecSort(32), BitVecSort(32))
CLMUL = Function('clmul64', BitVecSort(64), BitVecSort(64), BitVecSort(128))


class Region:
    def __init__(self, name, base, size, writable=True, init=None, secret=False):
        self.name, self.base, self.size, self.writable = name, base, size, writable
        self.bytes = {}
        self.init = init          # bytes object for concrete initial content, else symbolic on demand
        self.written = set()
        self.read = set()
        self.secret = secret

    def get(self, off):
        b = self.bytes.get(off)
        if b is None:
            if self.init is not None:
                b = BitVecVal(self.init[off], 8)
            else:
                b = BitVec('%s_%x' % (self.name, off), 8)
            self.bytes[off] = b
        return b

    def clone(self):
        r = Region(self.name, self.base, self.size, self.writable, self.init, self.secret)
        r.bytes = dict(self.bytes)
        r.written = set(self.written)
        r.read = set(self.read)
        return r


class CellRegion:
    """Sweep-mode stack: values kept at the granularity they were stored with (exact-match loads return the stored term,
    anything else that is not fully concrete is an unknown).  O(1) per access."""
    def __init__(self, name, base, size):
        self.name, self.base, self.size, self.writable = name, base, size, True
        self.cells = {}      # offset -> (term, nbytes)
        self.init = None
        self.secret = False
        self.written = set()
        self.read = set()
        self.bytes = {}

    def clone(self):
        r = CellRegion(self.name, self.base, self.size)
        r.cells = dict(self.cells)
        return r

    def put(self, off, n, val):
        for o in range(off - 63, off + n):
            c = self.cells.get(o)
            if c is not None and o + c[1] > off and o < off + n:
                if o == off and c[1] == n:
                    continue
                # partial overlap: split is not tracked, the remainder becomes unknown
                del self.cells[o]
        self.cells[off] = (val, n)

    def fetch(self, off, n):
        """-> (term or None, [terms overlapping the range]) ; exact match, containment in a larger cell, or concrete composition"""
        c = self.cells.get(off)
        if c is not None and c[1] == n:
            return c[0], ()
        if c is not None and c[1] > n:
            return Extract(8 * n - 1, 0, c[0]), ()
        over = []
        for o in range(off - 63, off + n):
            cc_ = self.cells.get(o)
            if cc_ is not None and o + cc_[1] > off and o < off + n:
                if o <= off and o + cc_[1] >= off + n:
                    lo = 8 * (off - o)
                    return Extract(lo + 8 * n - 1, lo, cc_[0]), ()      # contained in a larger cell
                over.append(cc_[0])
        # compose from smaller concrete cells if possible
        acc, k = 0, 0
        while k < n:
            c = self.cells.get(off + k)
            if c is None:
                return None, over
            v = conc(c[0])
            if v is None or k + c[1] > n:
                return None, over
            acc |= v << (8 * k)
            k += c[1]
        return BitVecVal(acc, 8 * n), ()

    def signature(self, absfn):
        return tuple(sorted((o, n, absfn(v)) for o, (v, n) in self.cells.items()))


class State:
    def __init__(self):
        self.r = [BitVec('%s_0' % n, 64) for n in R64]
        self.v = [BitVec('zmm%d_0' % i, 512) for i in range(32)]
        self.k = [BitVec('k%d_0' % i, 64) for i in range(8)]
        self.flags = None          # (kind, a, b, res, width) lazily evaluated, or dict of explicit Bool terms
        self.df = False
        self.mxcsr_written = False
        self.regions = []
        self.pc = []
        self.ip = None
        self.steps = 0
        self.faults = []
        self.visits = {}
        self.trace_branches = []   # (addr, cond term, taken)
        self.events = []           # engine-specific events (e.g. secret-dependent branch/address)
        self.callstack = 0
        self.ctx = ()              # return addresses of the active internal calls (loop-bound context)

    def clone(self):
        n = State.__new__(State)
        n.r = list(self.r); n.v = list(self.v); n.k = list(self.k)
        n.flags = self.flags; n.df = self.df; n.mxcsr_written = self.mxcsr_written
        n.regions = [r.clone() for r in self.regions]
        n.pc = list(self.pc); n.ip = self.ip; n.steps = self.steps
        n.faults = list(self.faults); n.visits = dict(self.visits)
        n.trace_branches = list(self.trace_branches); n.events = list(self.events); n.callstack = self.callstack; n.ctx = self.ctx
        return n

    def region(self, name):
        for r in self.regions:
            if r.name == name:
                return r
        return None


RET_SENTINEL = 0xdead0000beef


class Engine:
    def __init__(self, obj, mode='precise', max_steps=200000, loop_bound=3, addr_enum_limit=64, solver_timeout_ms=120000):
        self.o = obj if isinstance(obj, Obj) else Obj(obj)
        self.mode = mode
        self.solver = Solver()
        self.solver.set('timeout', solver_timeout_ms)
        self.nq = 0
        self.tq = 0.0
        self.stubs = {}            # text offset or external symbol -> callable(engine, state)
        self.max_steps = max_steps
        self.loop_bound = loop_bound
        self.addr_enum_limit = addr_enum_limit
        self.havoc_count = {}
        self.insn_count = 0
        self.unsupported_seen = {}
        self.on_branch = None      # hook(state, ins, cond)
        self.on_addr = None        # hook(state, ins, addr_term, nbytes, is_store)
        self.paths_pruned = 0
        self.memo = None           # set for sweep-mode state merging
        self.got = {}
        self.track_taint = False   # sweep mode: inherit the secret tag through havoc'd destinations (C19)

    # ------------------------------------------------------------------ solver
    def check(self, st, extra=None):
        self.nq += 1
        t = time.time()
        self.solver.push()
        if st.pc:
            self.solver.add(*st.pc)
        if extra is not None:
            self.solver.add(extra)
        r = self.solver.check()
        m = self.solver.model() if r == sat else None
        self.solver.pop()
        self.tq += time.time() - t
        return r, m

    # ------------------------------------------------------------------ memory
    def find_region(self, st, a, n):
        for r in st.regions:
            if r.base <= a and a + n <= r.base + r.size:
                return r
        return None

    def addr_values(self, st, e):
        c = conc(e)
        if c is not None:
            return [c]
        vals, extra = [], []
        while len(vals) <= self.addr_enum_limit:
            r, m = self.check(st, And(*extra) if extra else None)
            if r == unsat:
                return vals
            if r != sat:
                raise Unsupported('solver gave %s while enumerating an address' % r)
            v = m.eval(e, model_completion=True).as_long()
            vals.append(v)
            extra.append(e != v)
        raise Unsupported('symbolic address with more than %d feasible values: %s' % (self.addr_enum_limit, str(e)[:120]))

    def load(self, st, e, n, ins=None):
        e = simp(e)
        if self.on_addr:
            self.on_addr(st, ins, e, n, False)
        c = conc(e)
        if c is None and self.mode == 'sweep':
            return fresh(8 * n, 'ld')
        if c is not None and self.mode == 'sweep':
            rg = self.find_region(st, c, n)
            if isinstance(rg, CellRegion):
                val, over = rg.fetch(c - rg.base, n)
                return val if val is not None else fresh_like(8 * n, over, 'ld')
        vals = [c] if c is not None else self.addr_values(st, e)
        res = None
        for v in vals:
            rg = self.find_region(st, v, n)
            if rg is None:
                if self.mode == 'sweep':
                    val = fresh(8 * n, 'ld')
                else:
                    st.faults.append(('read outside every caller object', v, n, ins.addr if ins else None, self._where(st, v)))
                    # bytes that do lie inside an object keep their value (an over-read does not change what the in-range bytes are)
                    bs = []
                    for i in range(n):
                        r1 = self.find_region(st, v + i, 1)
                        bs.append(r1.get(v + i - r1.base) if r1 is not None else fresh(8, 'oob'))
                    val = Concat(*reversed(bs)) if n > 1 else bs[0]
            else:
                off = v - rg.base
                bs = [rg.get(off + i) for i in range(n)]
                for i in range(n):
                    rg.read.add(off + i)
                val = Concat(*reversed(bs)) if n > 1 else bs[0]
            res = val if res is None else If(e == v, val, res)
        return simp(res)

    def store(self, st, e, n, val, ins=None):
        e = simp(e)
        if self.on_addr:
            self.on_addr(st, ins, e, n, True)
        c = conc(e)
        if c is None and self.mode == 'sweep':
            return
        if c is not None and self.mode == 'sweep':
            rg = self.find_region(st, c, n)
            if isinstance(rg, CellRegion):
                rg.put(c - rg.base, n, val if small(val) else fresh_like(8 * n, [val], 'bigm'))
                return
            if rg is None:
                return
        vals = [c] if c is not None else self.addr_values(st, e)
        if self.mode == 'sweep' and not small(val):
            val = fresh_like(8 * n, [val], 'bigm')
        else:
            val = simp(val)
        for v in vals:
            rg = self.find_region(st, v, n)
            if rg is None or not rg.writable:
                if self.mode != 'sweep':
                    st.faults.append(('write outside every writable caller object' if rg is None else 'write to read-only object ' + rg.name, v, n,
                                      ins.addr if ins else None, self._where(st, v)))
                continue
            off = v - rg.base
            for i in range(n):
                b = simp(Extract(8 * i + 7, 8 * i, val))
                rg.bytes[off + i] = b if len(vals) == 1 else simp(If(e == v, b, rg.get(off + i)))
                rg.written.add(off + i)

    def _where(self, st, v):
        best = None
        for r in st.regions:
            d = min(abs(v - r.base), abs(v - (r.base + r.size)))
            if best is None or d < best[0]:
                best = (d, '%s%+d' % (r.name, v - r.base))
        return best[1] if best else '?'

    GOT_BASE = 0x6c0000

    def got_slot(self, st, sym):
        """PIC code: [rip + sym@GOTPCREL] is a slot holding the ADDRESS of sym."""
        idx = self.got.setdefault(sym, len(self.got))
        rg = st.region('got')
        if rg is None:
            rg = Region('got', self.GOT_BASE, 8192, writable=False)
            st.regions.append(rg)
        a = self.o.sym_addr(sym)
        if a is None:
            a = self.o.ext_address(sym)
        for i in range(8):
            rg.bytes[8 * idx + i] = BitVecVal((a >> (8 * i)) & 0xff, 8)
        return self.GOT_BASE + 8 * idx

    # ------------------------------------------------------------------ operands
    def ea(self, st, ins, op):
        acc = bv(op.disp, 64)
        if op.rip:
            if ins.reloc is None:
                # reference to data placed in the same .text section (resolved by the assembler)
                d = op.disp & M64
                if d >= 1 << 63:
                    d -= 1 << 64
                return bv(self.o.TEXT_BASE + ins.next + d, 64)
            if 'GOT' in ins.reloc[1]:
                return bv(self.got_slot(st, ins.reloc[2]), 64)
            tgt, sym = self.o.rip_target(ins)
            if tgt is None:
                raise Unsupported('rip-relative reference to undefined symbol %s at %x' % (sym, ins.addr))
            sec = self.o.sym_section(sym)
            if sec in ('.data', '.bss'):
                st.events.append(('global-writable-ref', ins.addr, sym))
            return bv(tgt, 64)
        if op.base:
            acc = acc + st.r[GPR[op.base][0]]
        if op.index:
            if op.index not in GPR:
                raise Unsupported('vector index (gather/scatter) at %x' % ins.addr)
            acc = acc + st.r[GPR[op.index][0]] * bv(op.scale, 64)
        if op.seg in ('fs', 'gs'):
            raise Unsupported('segment override at %x' % ins.addr)
        return simp(acc)

    def getg(self, st, op):
        i, w, hi = op.reg, op.width, op.hi
        return simp(Extract(hi + w - 1, hi, st.r[i]))

    def putg(self, st, op, v):
        i, w, hi = op.reg, op.width, op.hi
        if self.mode == 'sweep' and not small(v):
            v = fresh_like(w, [v], 'big')      # sweep mode: data-flow terms that keep growing are abstracted to "unknown" (secret tag kept)
        else:
            v = simp(v)
        if w == 64:
            st.r[i] = v
        elif w == 32:
            st.r[i] = simp(ZeroExt(32, v))
        elif hi:
            st.r[i] = simp(Concat(Extract(63, 16, st.r[i]), v, Extract(7, 0, st.r[i])))
        else:
            st.r[i] = simp(Concat(Extract(63, w, st.r[i]), v))

    def get(self, st, ins, op, w=None):
        if op.kind == 'gpr':
            return self.getg(st, op)
        if op.kind == 'imm':
            return bv(op.imm, w)
        if op.kind == 'mem':
            ww = op.width or w
            return self.load(st, self.ea(st, ins, op), ww // 8, ins)
        if op.kind == 'vec':
            return simp(Extract(op.width - 1, 0, st.v[op.reg]))
        if op.kind == 'k':
            return st.k[op.reg]
        raise Unsupported('operand %s at %x' % (op.text, ins.addr))

    def put(self, st, ins, op, v, w=None):
        if op.kind == 'gpr':
            self.putg(st, op, v)
        elif op.kind == 'mem':
            ww = op.width or w
            self.store(st, self.ea(st, ins, op), ww // 8, v, ins)
        else:
            raise Unsupported('put operand %s at %x' % (op.text, ins.addr))

    def getv(self, st, ins, op, w):
        """vector source of width w (register low part or memory)"""
        if op.kind == 'vec':
            return simp(Extract(w - 1, 0, st.v[op.reg]))
        if op.kind == 'mem':
            return self.load(st, self.ea(st, ins, op), w // 8, ins)
        raise Unsupported('vector operand %s at %x' % (op.text, ins.addr))

    def putv(self, st, ins, op, val, w, vex):
        """write w bits; legacy SSE keeps upper bits, VEX/EVEX zero them"""
        val = simp(val)
        if op.kind == 'vec':
            if vex or w == 512:
                st.v[op.reg] = simp(ZeroExt(512 - w, val)) if w < 512 else val
            else:
                st.v[op.reg] = simp(Concat(Extract(511, w, st.v[op.reg]), val))
        elif op.kind == 'mem':
            self.store(st, self.ea(st, ins, op), w // 8, val, ins)
        else:
            raise Unsupported('vector dest %s at %x' % (op.text, ins.addr))

    # ------------------------------------------------------------------ flags
    def set_flags_arith(self, st, kind, a, b, r, w, cin=None):
        if self.mode == 'sweep' and not (small(a) and small(b)):
            st.flags = 'S' if (tainted(a) or tainted(b)) else None
            return
        st.flags = (kind, a, b, r, w, cin)

    def flag(self, st, f):
        fl = st.flags
        if fl is None:
            return Bool('flag!%d' % next(_fresh))
        if fl == 'S':
            return Bool('flag%s!%d' % (SECRET_TAG, next(_fresh)))
        if isinstance(fl, dict):
            v = fl.get(f)
            return v if v is not None else Bool('flag!%d' % next(_fresh))
        kind, a, b, r, w, cin = fl
        if kind == 'expl':
            v = a.get(f)
            return v if v is not None else Bool('flag!%d' % next(_fresh))
        msb = lambda x: Extract(w - 1, w - 1, x) == 1
        if f == 'zf':
            return simp(r == 0)
        if f == 'sf':
            return simp(msb(r))
        if f == 'pf':
            x = Extract(7, 0, r)
            p = Extract(0, 0, x)
            for i in range(1, 8):
                p = p ^ Extract(i, i, x)
            return simp(p == 0)
        if kind == 'logic':
            return BoolVal(False)
        if kind == 'add':
            if f == 'cf':
                return simp(ULT(r, a)) if cin is None else simp(Extract(w, w, ZeroExt(1, a) + ZeroExt(1, b) + ZeroExt(w, cin)) == 1)
            if f == 'of':
                return simp(msb((a ^ r) & (b ^ r)))
        if kind == 'sub':
            if f == 'cf':
                return simp(ULT(a, b)) if cin is None else simp(Extract(w, w, ZeroExt(1, a) - ZeroExt(1, b) - ZeroExt(w, cin)) == 1)
            if f == 'of':
                return simp(msb((a ^ b) & (a ^ r)))
        if kind == 'inc':   # cf preserved: stored in cin slot as Bool
            if f == 'cf':
                return cin
            if f == 'of':
                return simp(r == bv(1 << (w - 1), w))
        if kind == 'dec':
            if f == 'cf':
                return cin
            if f == 'of':
                return simp(r == bv((1 << (w - 1)) - 1, w))
        if kind == 'expl':
            return a[f] if f in a else Bool('flag!%d' % next(_fresh))
        return Bool('flag!%d' % next(_fresh))

    def cc(self, st, c):
        z, cf, s, o = (lambda: self.flag(st, 'zf')), (lambda: self.flag(st, 'cf')), (lambda: self.flag(st, 'sf')), (lambda: self.flag(st, 'of'))
        tab = {'e': lambda: z(), 'z': lambda: z(), 'ne': lambda: Not(z()), 'nz': lambda: Not(z()),
               'b': lambda: cf(), 'c': lambda: cf(), 'nae': lambda: cf(), 'ae': lambda: Not(cf()), 'nc': lambda: Not(cf()), 'nb': lambda: Not(cf()),
               'be': lambda: Or(cf(), z()), 'na': lambda: Or(cf(), z()), 'a': lambda: And(Not(cf()), Not(z())), 'nbe': lambda: And(Not(cf()), Not(z())),
               's': lambda: s(), 'ns': lambda: Not(s()), 'o': lambda: o(), 'no': lambda: Not(o()),
               'l': lambda: Xor(s(), o()), 'nge': lambda: Xor(s(), o()), 'ge': lambda: Not(Xor(s(), o())), 'nl': lambda: Not(Xor(s(), o())),
               'le': lambda: Or(z(), Xor(s(), o())), 'ng': lambda: Or(z(), Xor(s(), o())), 'g': lambda: And(Not(z()), Not(Xor(s(), o()))),
               'nle': lambda: And(Not(z()), Not(Xor(s(), o()))), 'p': lambda: self.flag(st, 'pf'), 'np': lambda: Not(self.flag(st, 'pf')),
               'pe': lambda: self.flag(st, 'pf'), 'po': lambda: Not(self.flag(st, 'pf'))}
        if c not in tab:
            raise Unsupported('condition code ' + c)
        return simp(tab[c]())

    # ------------------------------------------------------------------ running
    def run(self, st, entry, stop_at=None):
        """entry: symbol name or .text offset. Returns list of finished states (those that executed the final ret)."""
        st.ip = self.o.syms[entry][1] if isinstance(entry, str) else entry
        work, finished = [st], []
        while work:
            cur = work.pop()
            while cur is not None and cur.ip is not None:
                if cur.steps > self.max_steps:
                    raise BoundExceeded('instruction budget %d exceeded at %x' % (self.max_steps, cur.ip))
                if stop_at is not None and cur.ip in stop_at:
                    break
                succ = self.step(cur)
                if not succ:
                    cur = None
                    break
                if len(succ) > 1:
                    work.extend(succ[1:])
                cur = succ[0]
            if cur is not None:
                finished.append(cur)
        return finished

    def step(self, st):
        from vlib.asmx import sem
        ins = self.o.insns.get(st.ip)
        if ins is None:
            raise Unsupported('no instruction at .text+%x (fell off a function or jumped into data)' % st.ip)
        st.steps += 1
        self.insn_count += 1
        return sem.execute(self, st, ins)

    # branch helper used by sem
    def branch(self, st, ins, cond, target, fallthrough):
        cond = simp(cond)
        if self.on_branch:
            self.on_branch(st, ins, cond)
        if is_true(cond):
            st.ip = target
            return [st]
        if is_false(cond):
            st.ip = fallthrough
            return [st]
        if self.mode == 'sweep':
            # over-approximate: follow both directions of every non-constant condition (no solver pruning), so that
            # merging states by signature below is sound; the path condition is still recorded for confirming a finding
            r1 = r2 = sat
        else:
            r1, _ = self.check(st, cond)
            r2, _ = self.check(st, Not(cond))
            if r1 == unknown or r2 == unknown:
                raise Unsupported('solver timeout on branch condition at %x' % ins.addr)
        out = []
        cands = [(c, tgt) for ok, c, tgt in ((r1 == sat, cond, target), (r2 == sat, simp(Not(cond)), fallthrough)) if ok]
        for idx, (c, tgt) in enumerate(cands):
            n = st if idx == len(cands) - 1 else st.clone()
            n.pc.append(c)
            n.ip = tgt
            n.trace_branches.append((ins.addr, c))
            if len(cands) == 2:
                k = (n.ctx, ins.addr, tgt)
                n.visits[k] = n.visits.get(k, 0) + 1
                if n.visits[k] > self.loop_bound:
                    self.paths_pruned += 1
                    if self.mode == 'sweep':
                        continue
                    raise BoundExceeded('loop at %x iterated more than %d times on a symbolic condition (unwinding bound)' % (ins.addr, self.loop_bound))
                if self.memo is not None and self._subsumed(n):
                    self.paths_pruned += 1
                    continue
            out.append(n)
        return out

    def _free_cond(self, cond):
        s = str(cond)
        return '!' in s

    CALLEE = (3, 5, 12, 13, 14, 15)
    KEEP = ('rbx_0', 'rbp_0', 'r12_0', 'r13_0', 'r14_0', 'r15_0')

    def _subsumed(self, st):
        """Sweep-mode state merging.  Exact part: ip, call context, rsp, DF/MXCSR, callee-saved registers.  General part:
        caller-saved registers and stack cells, where an unknown ('?') seen earlier covers any later value (a state whose
        values are unknown explores a superset of the continuations of a state where they are known)."""
        key = (st.ip, st.ctx, self._abs(st.r[4]), st.df, st.mxcsr_written) + (self.key_extra(st) if getattr(self, 'key_extra', None) else ())
        gen = {('r', i): self._abs(st.r[i]) for i in range(16) if i != 4}
        for rg in st.regions:
            if isinstance(rg, CellRegion):
                for o, (v, n) in rg.cells.items():
                    gen[('m', o, n)] = self._abs(v)
        seen = self.memo.setdefault(key, []) if isinstance(self.memo, dict) else None
        if seen is None:
            self.memo = {}
            seen = self.memo.setdefault(key, [])
        for old in seen:
            ok = True
            for k, v in old.items():
                nv = gen.get(k, '?')
                if v == '?S':
                    continue                      # secret unknown covers everything
                if v == '?':
                    if nv == '?S' or (isinstance(nv, str) and nv != '?'):
                        ok = False            # an unknown does not cover a secret, nor an entry-value token (restored register)
                        break
                    continue                      # public unknown covers public concrete/unknown values
                if nv != v:
                    ok = False
                    break
            if ok:
                # cells/regs absent from the old state are unknown-public there: they do not cover a secret value
                if any(v == '?S' and k not in old for k, v in gen.items()):
                    ok = False
            if ok:
                return True
        if len(seen) >= 12:
            # widening: many states reach this point differing only in concrete scratch values (e.g. a lane mask built bit by bit).
            # Replace every caller-saved register / stack cell whose value differs from an earlier state by an unknown: a sound
            # over-approximation (its branches are then followed both ways), after which later states are subsumed.
            changed = False
            for k, v in list(gen.items()):
                if v == '?' or v == '?S' or isinstance(v, str):
                    continue
                if any(o.get(k, '?') != v for o in seen):
                    if k[0] == 'r':
                        st.r[k[1]] = fresh_like(64, [st.r[k[1]]], 'wid')
                    else:
                        for rg in st.regions:
                            if isinstance(rg, CellRegion) and k[1] in rg.cells:
                                rg.cells[k[1]] = (fresh_like(8 * k[2], [rg.cells[k[1]][0]], 'widm'), k[2])
                    gen[k] = '?S' if (self.track_taint and v == '?S') else '?'
                    changed = True
            if changed:
                for old in seen:
                    if all((v == '?S') or (v == '?' and not isinstance(gen.get(k, '?'), str or ()) ) or (v == '?' and gen.get(k, '?') == '?') or gen.get(k, '?') == v for k, v in old.items()) and \
                            not any(v == '?S' and k not in old for k, v in gen.items()):
                        return True
        seen.append(gen)
        if len(seen) > 64:
            del seen[0]
        return False

    def _abs(self, e):
        c = conc(e)
        if c is not None:
            return c
        if tsize(e) <= 12:
            s = e.sexpr()
            if '!' not in s and any(k in s for k in self.KEEP):
                return s
        return '?S' if (self.track_taint and tainted(e)) else '?'


def ackermannize(terms):
    """Replace every application of an uninterpreted function by a fresh variable, the SAME variable for syntactically identical
    (hash-consed, simplified) argument lists.  Sound for proving equalities: if the abstracted disequality is unsatisfiable so is
    the original (the original is an instance); a satisfiable abstraction proves nothing (fall back to the exact query)."""
    from z3 import is_app, is_const, Z3_OP_UNINTERPRETED
    cache, table = {}, {}

    def go(e):
        k = e.get_id()
        if k in cache:
            return cache[k]
        if e.num_args() == 0:
            cache[k] = e
            return e
        kids = [go(c) for c in e.children()]
        d = e.decl()
        if d.kind() == Z3_OP_UNINTERPRETED:
            kids = [simplify(c) for c in kids]
            key = (d.name(),) + tuple(c.get_id() for c in kids)
            v = table.get(key)
            if v is None:
                v = (BitVec('ack!%s!%d' % (d.name(), len(table)), e.size()), kids)   # keep kids alive so ids stay unique
                table[key] = v
            r = v[0]
        else:
            r = d(*kids)
        cache[k] = r
        return r
    return [simplify(go(t)) for t in terms]


class NotLinear(Exception):
    pass


def xor_normal_form(terms):
    """Exact normal form for the fragment {constants, symbols, xor, not, extract, concat, constant shifts/rotates, zero/sign-free
    extensions, uninterpreted functions}: every bit becomes (constant, frozenset of atoms); an uninterpreted application is an
    atom family named by the normal forms of its argument bits (Ackermann abstraction over a canonical form, so congruent
    applications coincide).  Two terms are equal for all values if their normal forms coincide.  Raises NotLinear otherwise."""
    from z3 import (Z3_OP_BXOR, Z3_OP_BNOT, Z3_OP_EXTRACT, Z3_OP_CONCAT, Z3_OP_UNINTERPRETED, Z3_OP_BNUM, Z3_OP_ZERO_EXT, Z3_OP_BSHL, Z3_OP_BLSHR,
                    Z3_OP_ROTATE_LEFT, Z3_OP_ROTATE_RIGHT, Z3_OP_BOR, Z3_OP_BAND)
    cache, table = {}, {}
    ZERO = (0, frozenset())

    def go(e):
        k = e.get_id()
        if k in cache:
            return cache[k]
        w = e.size()
        d = e.decl()
        kind = d.kind()
        if kind == Z3_OP_BNUM:
            v = e.as_long()
            r = [((v >> i) & 1, frozenset()) for i in range(w)]
        elif kind == Z3_OP_UNINTERPRETED and e.num_args() == 0:
            nm = d.name()
            r = [(0, frozenset([(nm, i)])) for i in range(w)]
        elif kind == Z3_OP_UNINTERPRETED:
            args = tuple(tuple(go(c)) for c in e.children())
            key = (d.name(), args)
            nm = table.get(key)
            if nm is None:
                nm = 'uf!%s!%d' % (d.name(), len(table))
                table[key] = nm
            r = [(0, frozenset([(nm, i)])) for i in range(w)]
        elif kind == Z3_OP_BXOR:
            r = [ZERO] * w
            for c in e.children():
                cc = go(c)
                r = [(a[0] ^ b[0], a[1] ^ b[1]) for a, b in zip(r, cc)]
        elif kind == Z3_OP_BNOT:
            r = [(a[0] ^ 1, a[1]) for a in go(e.arg(0))]
        elif kind == Z3_OP_EXTRACT:
            hi, lo = d.params()[0], d.params()[1]
            r = go(e.arg(0))[lo:hi + 1]
        elif kind == Z3_OP_CONCAT:
            r = []
            for c in reversed(e.children()):
                r = r + go(c)
        elif kind == Z3_OP_ZERO_EXT:
            r = go(e.arg(0)) + [ZERO] * d.params()[0]
        elif kind in (Z3_OP_BSHL, Z3_OP_BLSHR) and is_bv_value(e.arg(1)):
            n = e.arg(1).as_long()
            a = go(e.arg(0))
            r = ([ZERO] * min(n, w) + a[:max(w - n, 0)]) if kind == Z3_OP_BSHL else (a[min(n, w):] + [ZERO] * min(n, w))
        elif kind in (Z3_OP_ROTATE_LEFT, Z3_OP_ROTATE_RIGHT):
            n = d.params()[0] % w
            a = go(e.arg(0))
            r = (a[w - n:] + a[:w - n]) if kind == Z3_OP_ROTATE_LEFT else (a[n:] + a[:n])
        elif kind in (Z3_OP_BOR, Z3_OP_BAND):
            # only bitwise-disjoint OR / AND with a constant mask are linear
            parts = [go(c) for c in e.children()]
            r = []
            for i in range(w):
                bits = [p[i] for p in parts]
                if kind == Z3_OP_BOR:
                    nz = [b for b in bits if b != ZERO]
                    if len(nz) > 1:
                        raise NotLinear('or of overlapping bits')
                    r.append(nz[0] if nz else ZERO)
                else:
                    if any(b == ZERO for b in bits):
                        r.append(ZERO)
                    else:
                        nc = [b for b in bits if b != (1, frozenset())]
                        if len(nc) > 1:
                            raise NotLinear('and of two non-constants')
                        r.append(nc[0] if nc else (1, frozenset()))
        else:
            raise NotLinear(str(d.name()))
        cache[k] = r
        return r
    return [tuple(go(t)) for t in terms]
