"""objdump/readelf front end: relocatable x86-64 object -> instruction list with parsed operands, symbols, relocations, sections."""
import re, subprocess, os, tempfile

R64 = ['rax', 'rcx', 'rdx', 'rbx', 'rsp', 'rbp', 'rsi', 'rdi', 'r8', 'r9', 'r10', 'r11', 'r12', 'r13', 'r14', 'r15']
R32 = ['eax', 'ecx', 'edx', 'ebx', 'esp', 'ebp', 'esi', 'edi'] + ['r%dd' % i for i in range(8, 16)]
R16 = ['ax', 'cx', 'dx', 'bx', 'sp', 'bp', 'si', 'di'] + ['r%dw' % i for i in range(8, 16)]
R8 = ['al', 'cl', 'dl', 'bl', 'spl', 'bpl', 'sil', 'dil'] + ['r%db' % i for i in range(8, 16)]
R8H = {'ah': 0, 'ch': 1, 'dh': 2, 'bh': 3}
GPR = {}
for i, n in enumerate(R64): GPR[n] = (i, 64, 0)
for i, n in enumerate(R32): GPR[n] = (i, 32, 0)
for i, n in enumerate(R16): GPR[n] = (i, 16, 0)
for i, n in enumerate(R8): GPR[n] = (i, 8, 0)
for n, i in R8H.items(): GPR[n] = (i, 8, 8)
SIZES = {'BYTE': 8, 'WORD': 16, 'DWORD': 32, 'QWORD': 64, 'XMMWORD': 128, 'YMMWORD': 256, 'ZMMWORD': 512, 'TBYTE': 80, 'FWORD': 48, 'OWORD': 128}
PREFIXES = {'rex.W', 'data16', 'cs', 'notrack', 'bnd', 'rex.WR', 'rex.WB', 'rex.R', 'rex.B', 'rex.X', 'ds', 'rex', 'rex.WX', 'rex.RB', 'rex.WRB', 'rex.WXB', 'rex.RX',
            'rex.XB', 'rex.RXB', 'rex.WRX', 'rex.WRXB', 'es', 'ss', 'addr32', '{evex}', '{vex}', '{vex3}'}
REP = {'rep', 'repz', 'repnz', 'repe', 'repne', 'lock'}


class Op:
    __slots__ = ('kind', 'reg', 'width', 'hi', 'base', 'index', 'scale', 'disp', 'rip', 'imm', 'mask', 'zeroing', 'bcast', 'text', 'seg')

    def __init__(self, text):
        self.text = text
        self.kind = None      # 'gpr','vec','k','mem','imm'
        self.reg = None
        self.width = None
        self.hi = 0
        self.base = self.index = None
        self.scale = 1
        self.disp = 0
        self.rip = False
        self.imm = None
        self.mask = None
        self.zeroing = False
        self.bcast = None
        self.seg = None

    def __repr__(self):
        return self.text


def parse_operand(t):
    o = Op(t)
    s = t.strip()
    m = re.search(r'\{(k[0-7])\}', s)
    if m:
        o.mask = int(m.group(1)[1])
        s = s.replace(m.group(0), '')
    if '{z}' in s:
        o.zeroing = True
        s = s.replace('{z}', '')
    m = re.search(r'\{1to(\d+)\}', s)
    if m:
        o.bcast = int(m.group(1))
        s = s.replace(m.group(0), '')
    s = re.sub(r'\{(rn|rd|ru|rz)-sae\}|\{sae\}', '', s).strip().rstrip(',').strip()
    if s in GPR:
        o.kind = 'gpr'
        o.reg, o.width, o.hi = GPR[s]
        return o
    m = re.match(r'^([xyz])mm(\d+)$', s)
    if m:
        o.kind = 'vec'
        o.reg = int(m.group(2))
        o.width = {'x': 128, 'y': 256, 'z': 512}[m.group(1)]
        return o
    m = re.match(r'^k([0-7])$', s)
    if m:
        o.kind = 'k'
        o.reg = int(m.group(1))
        o.width = 64
        return o
    m = re.match(r'^(?:(\w+) PTR )?(?:(\w\w):)?\[(.*)\]$', s)
    if m:
        o.kind = 'mem'
        o.width = SIZES.get(m.group(1)) if m.group(1) else None
        o.seg = m.group(2)
        inner = m.group(3)
        for sign, term in re.findall(r'([+-]?)\s*([^+-]+)', inner):
            term = term.strip()
            if term == 'rip':
                o.rip = True
                continue
            mm = re.match(r'^(\w+)\*(\d+)$', term)
            if mm:
                o.index = mm.group(1)
                o.scale = int(mm.group(2))
            elif term in GPR or re.match(r'^[xyz]mm\d+$', term):
                if o.base is None and not re.match(r'^[xyz]mm', term):
                    o.base = term
                else:
                    o.index = term
                    o.scale = 1
            else:
                v = int(term, 16) if term.startswith('0x') else int(term)
                o.disp += -v if sign == '-' else v
        return o
    m = re.match(r'^(-?)(0x[0-9a-f]+|\d+)$', s)
    if m:
        o.kind = 'imm'
        v = int(m.group(2), 16) if m.group(2).startswith('0x') else int(m.group(2))
        o.imm = -v if m.group(1) else v
        return o
    o.kind = 'other'
    return o


class Insn:
    __slots__ = ('addr', 'mnem', 'ops', 'text', 'reloc', 'next', 'prefix', 'size')

    def __init__(self, addr, mnem, ops, text, prefix):
        self.addr, self.mnem, self.ops, self.text, self.prefix = addr, mnem, ops, text, prefix
        self.reloc = None
        self.next = None


def split_ops(s):
    out, depth, cur = [], 0, ''
    for ch in s:
        if ch in '[{':
            depth += 1
        if ch in ']}':
            depth -= 1
        if ch == ',' and depth == 0:
            out.append(cur.strip())
            cur = ''
        else:
            cur += ch
    if cur.strip():
        out.append(cur.strip())
    return out


class Obj:
    """A relocatable object: .text instructions, symbols, relocations, read-only data."""
    TEXT_BASE = 0x400000
    RODATA_BASE = 0x600000
    DATA_BASE = 0x680000
    EXT_BASE = 0x10000000

    def __init__(self, path):
        self.path = path
        self.insns = {}
        self.labels = {}
        self.syms = {}
        self.secs = {}
        self.sec_sizes = {}
        self._parse_symbols()
        self._parse_text()
        self.rodata = self._section_bytes('.rodata')
        self.text_bytes = self._section_bytes('.text')
        self.data_reloc_targets = []
        self.ext_addr = {}

    def _parse_symbols(self):
        txt = subprocess.check_output(['readelf', '-SW', self.path], text=True)
        for line in txt.splitlines():
            m = re.match(r'^\s*\[\s*(\d+)\]\s+(\S+)\s+(\S+)\s+[0-9a-f]+\s+[0-9a-f]+\s+([0-9a-f]+)\s+\S+\s*(\S*)', line)
            if m:
                self.secs[m.group(1)] = m.group(2)
                self.sec_sizes[m.group(2)] = (int(m.group(4), 16), m.group(3), m.group(5))
        txt = subprocess.check_output(['readelf', '-sW', self.path], text=True)
        for line in txt.splitlines():
            m = re.match(r'^\s*\d+:\s+([0-9a-f]+)\s+(\d+)\s+(\S+)\s+(\S+)\s+(\S+)\s+(\S+)\s+(\S+)$', line)
            if not m:
                continue
            val, size, typ, bind, vis, ndx, name = m.groups()
            sec = '*UND*' if ndx == 'UND' else ('*ABS*' if ndx == 'ABS' else self.secs.get(ndx, '?'))
            if bind == 'LOCAL' and name in self.syms:
                continue
            self.syms[name] = (sec, int(val, 16), typ, bind, int(size))

    def _section_bytes(self, sec):
        if sec not in self.sec_sizes or self.sec_sizes[sec][0] == 0 or self.sec_sizes[sec][1] == 'NOBITS':
            return b''
        with tempfile.NamedTemporaryFile(delete=False) as t:
            tn = t.name
        subprocess.check_call(['objcopy', '-O', 'binary', '--only-section=' + sec, self.path, tn])
        b = open(tn, 'rb').read()
        os.unlink(tn)
        return b

    def _parse_text(self):
        txt = subprocess.check_output(['objdump', '-d', '-r', '-M', 'intel', '--no-show-raw-insn', '-w', '-j', '.text', self.path], text=True, stderr=subprocess.DEVNULL)
        last = None
        for line in txt.splitlines():
            m = re.match(r'^([0-9a-f]+) <(.+)>:$', line)
            if m:
                self.labels.setdefault(int(m.group(1), 16), []).append(m.group(2))
                continue
            m = re.match(r'^\s+([0-9a-f]+): (R_X86_64_\w+)\s+(.+?)([+-]0x[0-9a-f]+)?$', line)
            if m and last is not None:
                last.reloc = (int(m.group(1), 16), m.group(2), m.group(3), int(m.group(4), 16) if m.group(4) else 0)
                continue
            m = re.match(r'^\s*([0-9a-f]+):\t(.*)$', line)
            if m:
                addr = int(m.group(1), 16)
                rest = m.group(2)
                reloc = None
                mr = re.search(r'\t([0-9a-f]+): (R_X86_64_\w+)\s+(\S+?)([+-]0x[0-9a-f]+)?\s*$', rest)
                if mr:
                    reloc = (int(mr.group(1), 16), mr.group(2), mr.group(3), int(mr.group(4), 16) if mr.group(4) else 0)
                    rest = rest[:mr.start()]
                body = re.sub(r'\s+#.*$', '', rest.strip())
                body = re.sub(r'<[^>]*>', '', body).strip()
                toks = body.split(None, 1)
                prefix = []
                while toks and (toks[0] in PREFIXES or toks[0] in REP):
                    prefix.append(toks[0])
                    body = toks[1] if len(toks) > 1 else ''
                    toks = body.split(None, 1)
                if not toks:
                    continue
                mnem = toks[0]
                opstrs = split_ops(toks[1]) if len(toks) > 1 else []
                if (mnem[0] == 'j' or mnem in ('call', 'loop', 'loope', 'loopne', 'xbegin')) and len(opstrs) == 1 and re.match(r'^[0-9a-f]+$', opstrs[0]):
                    op = Op(opstrs[0])
                    op.kind = 'imm'
                    op.imm = int(opstrs[0], 16)   # branch targets are printed as bare hex
                    ops = [op]
                else:
                    ops = [parse_operand(x) for x in opstrs]
                i = Insn(addr, mnem, ops, body, prefix)
                i.reloc = reloc
                if last is not None:
                    last.next = addr
                self.insns[addr] = i
                last = i

    # ---- address resolution ----
    def sym_addr(self, name):
        if name == '.rodata':
            return self.RODATA_BASE
        if name == '.text':
            return self.TEXT_BASE
        if name in ('.data', '.bss'):
            return self.DATA_BASE
        if name not in self.syms:
            return None
        sec, val = self.syms[name][0], self.syms[name][1]
        if sec == '.rodata':
            return self.RODATA_BASE + val
        if sec == '.text':
            return self.TEXT_BASE + val
        if sec in ('.data', '.bss'):
            return self.DATA_BASE + val
        return None

    def ext_address(self, sym):
        return self.ext_addr.setdefault(sym, self.EXT_BASE + 0x100000 * len(self.ext_addr))

    def sym_section(self, name):
        if name in ('.rodata', '.text', '.data', '.bss'):
            return name
        return self.syms[name][0] if name in self.syms else None

    def rip_target(self, ins):
        """Absolute pseudo-address of a rip-relative memory operand (via its relocation)."""
        if ins.reloc is None:
            return None, None
        off, typ, sym, add = ins.reloc
        base = self.sym_addr(sym)
        if base is None:
            if sym in self.syms and self.syms[sym][0] == '*UND*':
                # data defined in another unit: a private pseudo-address (no region behind it unless the harness maps one)
                base = self.ext_addr.setdefault(sym, self.EXT_BASE + 0x100000 * len(self.ext_addr))
            else:
                return None, sym
        nxt = ins.next if ins.next is not None else ins.addr + 8
        return base + add + (nxt - off), sym

    def branch_target(self, ins):
        if ins.reloc and ins.mnem in ('call', 'jmp') and ins.reloc[1] in ('R_X86_64_PLT32', 'R_X86_64_PC32'):
            off, typ, sym, add = ins.reloc
            a = self.sym_addr(sym)
            if a is None or self.sym_section(sym) != '.text':
                return 'ext', sym
            return 'int', a - self.TEXT_BASE + add + 4
        if ins.ops and ins.ops[0].kind == 'imm':
            return 'int', ins.ops[0].imm
        return 'ind', None

    def functions(self):
        """Global function symbols defined in .text."""
        out = []
        for n, (sec, val, typ, bind, size) in self.syms.items():
            if sec == '.text' and bind == 'GLOBAL' and typ in ('FUNC', 'NOTYPE'):
                out.append((n, val))
        return sorted(out, key=lambda x: x[1])
