"""Exact semantics of the SIMD integer/shuffle/move subset (legacy SSE and VEX forms).  Returns True when handled, None otherwise."""
import re
from z3 import (BitVecVal, BoolVal, And, Or, Not, If, Concat, Extract, ZeroExt, SignExt, LShR, ULT, ULE, UGT, UGE, simplify, is_bv_value)
from vlib.asmx.engine import Unsupported, bv, simp, conc, fresh, AESENC, AESENCLAST, AESDEC, AESDECLAST, AESIMC, SBOX32, CLMUL


def lanes(x, w, n=None):
    n = n or x.size() // w
    return [Extract(w * i + w - 1, w * i, x) for i in range(n)]


def join(ls):
    return Concat(*reversed(ls)) if len(ls) > 1 else ls[0]


MOVES = {'movdqa': 16, 'movdqu': 1, 'movaps': 16, 'movups': 1, 'movapd': 16, 'movupd': 1, 'lddqu': 1,
         'vmovdqa': 0, 'vmovdqu': 1, 'vmovaps': 0, 'vmovups': 1, 'vmovapd': 0, 'vmovupd': 1, 'vlddqu': 1,
         'vmovdqa32': 0, 'vmovdqa64': 0, 'vmovdqu8': 1, 'vmovdqu16': 1, 'vmovdqu32': 1, 'vmovdqu64': 1, 'movntdq': 16, 'vmovntdq': 0, 'movntdqa': 16, 'vmovntdqa': 0}
BITOPS = {'pxor': '^', 'por': '|', 'pand': '&', 'xorps': '^', 'xorpd': '^', 'orps': '|', 'orpd': '|', 'andps': '&', 'andpd': '&',
          'vpxor': '^', 'vpor': '|', 'vpand': '&', 'vxorps': '^', 'vxorpd': '^', 'vorps': '|', 'vandps': '&', 'vandpd': '&', 'vorpd': '|',
          'vpxord': '^', 'vpxorq': '^', 'vpord': '|', 'vporq': '|', 'vpandd': '&', 'vpandq': '&'}
ANDN = {'pandn', 'andnps', 'andnpd', 'vpandn', 'vandnps', 'vandnpd', 'vpandnd', 'vpandnq'}
ARITH = {'paddb': (8, '+'), 'paddw': (16, '+'), 'paddd': (32, '+'), 'paddq': (64, '+'), 'psubb': (8, '-'), 'psubw': (16, '-'), 'psubd': (32, '-'), 'psubq': (64, '-')}
SHIFTS = {'psllw': (16, 'l'), 'pslld': (32, 'l'), 'psllq': (64, 'l'), 'psrlw': (16, 'r'), 'psrld': (32, 'r'), 'psrlq': (64, 'r'), 'psraw': (16, 'a'), 'psrad': (32, 'a')}
CMPS = {'pcmpeqb': (8, 'eq'), 'pcmpeqw': (16, 'eq'), 'pcmpeqd': (32, 'eq'), 'pcmpeqq': (64, 'eq'), 'pcmpgtb': (8, 'gt'), 'pcmpgtw': (16, 'gt'), 'pcmpgtd': (32, 'gt'), 'pcmpgtq': (64, 'gt')}
MINMAX = {'pminub': (8, 'minu'), 'pminuw': (16, 'minu'), 'pminud': (32, 'minu'), 'pmaxub': (8, 'maxu'), 'pmaxuw': (16, 'maxu'), 'pmaxud': (32, 'maxu'),
          'pminsb': (8, 'mins'), 'pminsw': (16, 'mins'), 'pminsd': (32, 'mins'), 'pmaxsb': (8, 'maxs'), 'pmaxsw': (16, 'maxs'), 'pmaxsd': (32, 'maxs')}
UNPCK = {'punpcklbw': (8, 0), 'punpcklwd': (16, 0), 'punpckldq': (32, 0), 'punpcklqdq': (64, 0), 'punpckhbw': (8, 1), 'punpckhwd': (16, 1), 'punpckhdq': (32, 1),
         'punpckhqdq': (64, 1), 'unpcklps': (32, 0), 'unpckhps': (32, 1), 'unpcklpd': (64, 0), 'unpckhpd': (64, 1)}


SWEEP_EXACT = {'pinsrb', 'pinsrw', 'pinsrd', 'pinsrq', 'pextrb', 'pextrw', 'pextrd', 'pextrq', 'pshufd', 'movlhps', 'movhlps',
               'inserti128', 'insertf128', 'extracti128', 'extractf128', 'perm2i128', 'perm2f128'}


def execute(E, st, ins):
    m, o = ins.mnem, ins.ops
    vex = m.startswith('v')
    base = m[1:] if vex else m
    if E.mode == 'sweep' and base not in ('movq', 'movd', 'zeroupper', 'zeroall'):
        # sweep mode havocs SIMD destinations; with exact_moves (constant-time sweep) pure data movement stays exact so that
        # pointers and lengths gathered through vector registers (gcc does that for small arrays) remain known
        if not (getattr(E, 'exact_moves', False) and (m in MOVES or base in UNPCK or base in SWEEP_EXACT)
                and not any(x.mask is not None or x.bcast for x in o)):
            return None     # destination havoc'd by the caller
    if any(x.mask is not None or x.bcast for x in o):
        return avx512(E, st, ins)
    if m.startswith(('k', 'vshuf', 'vextract', 'vinsert', 'vbroadcast', 'valign', 'vpternlog', 'vpcmp', 'vperm')) and m not in (
            'vinserti128', 'vinsertf128', 'vextracti128', 'vextractf128', 'vbroadcasti128', 'vbroadcastf128', 'vbroadcastss', 'vbroadcastsd') \
            and not (m.startswith('vshuf') and m in ('vshufps', 'vshufpd')):
        r = evex_unmasked(E, st, ins)
        if r is not None:
            return r
    W = max([x.width for x in o if x.kind == 'vec'] or [128])
    nl = W // 128

    def src(i, w=None):
        return E.getv(st, ins, o[i], w or W)

    def dst(val, w=None):
        E.putv(st, ins, o[0], val, w or W, vex)
        return True

    def two():  # (a, b) operands of a binary op in either encoding
        if vex and len(o) >= 3:
            return src(1), src(2)
        return src(0), src(1)

    if m in MOVES:
        al = MOVES[m]
        for x in o:
            if x.kind == 'mem':
                a = E.ea(st, ins, x)
                need = (W // 8) if al == 0 else al
                if need > 1 and E.mode != 'sweep':
                    c = conc(a)
                    if c is not None:
                        if c % need:
                            st.faults.append(('misaligned aligned-move', c, W // 8, ins.addr, ins.text))
                    else:
                        r, mdl = E.check(st, (a & (need - 1)) != 0)
                        if str(r) == 'sat':
                            st.faults.append(('aligned move with possibly misaligned address', 0, W // 8, ins.addr, ins.text))
        return dst(src(1))
    if base in ('movq',):
        if o[0].kind == 'vec':
            v = E.get(st, ins, o[1], 64) if o[1].kind != 'vec' else Extract(63, 0, st.v[o[1].reg])
            E.putv(st, ins, o[0], ZeroExt(64, v), 128, vex)  # zero-extends to 128; legacy form keeps bits above 128
            return True
        v = Extract(63, 0, st.v[o[1].reg])
        E.put(st, ins, o[0], v, 64)
        return True
    if base in ('movd',):
        if o[0].kind == 'vec':
            v = E.get(st, ins, o[1], 32)
            if not vex:
                st.v[o[0].reg] = simp(Concat(Extract(511, 128, st.v[o[0].reg]), ZeroExt(96, v)))
            else:
                st.v[o[0].reg] = simp(ZeroExt(480, v))
            return True
        v = Extract(31, 0, st.v[o[1].reg])
        E.put(st, ins, o[0], v, 32)
        return True
    if m == 'vzeroupper':
        for i in range(16):
            st.v[i] = simp(ZeroExt(384, Extract(127, 0, st.v[i])))
        return True
    if m == 'vzeroall':
        for i in range(16):
            st.v[i] = bv(0, 512)
        return True
    if m in BITOPS:
        a, b = two()
        return dst({'^': a ^ b, '|': a | b, '&': a & b}[BITOPS[m]])
    if m in ANDN:
        a, b = two()
        return dst(~a & b)
    if base in ARITH:
        w, op = ARITH[base]
        a, b = two()
        return dst(join([(x + y) if op == '+' else (x - y) for x, y in zip(lanes(a, w), lanes(b, w))]))
    if base in SHIFTS:
        w, k = SHIFTS[base]
        if vex and len(o) == 3:
            a, c = src(1), o[2]
        else:
            a, c = src(0), o[1]
        if c.kind == 'imm':
            n = c.imm & 0xff
        else:
            cv = conc(Extract(63, 0, E.getv(st, ins, c, 128)))
            if cv is None:
                raise Unsupported('vector shift by symbolic count')
            n = cv
        if n >= w:
            res = [bv(0, w) if k != 'a' else (x >> (w - 1)) for x in lanes(a, w)]
        else:
            res = [(x << n) if k == 'l' else (LShR(x, n) if k == 'r' else (x >> n)) for x in lanes(a, w)]
        return dst(join(res))
    if base in ('pslldq', 'psrldq'):
        if vex:
            a, n = src(1), o[2].imm
        else:
            a, n = src(0), o[1].imm
        n = min(n, 16)
        out = []
        for l in lanes(a, 128):
            out.append((l << (8 * n)) if base == 'pslldq' else LShR(l, 8 * n))
        return dst(join(out))
    if base in CMPS:
        w, k = CMPS[base]
        a, b = two()
        ones = bv(-1, w)
        return dst(join([If(x == y if k == 'eq' else x > y, ones, bv(0, w)) for x, y in zip(lanes(a, w), lanes(b, w))]))
    if base in MINMAX:
        w, k = MINMAX[base]
        a, b = two()
        f = {'minu': lambda x, y: If(ULT(x, y), x, y), 'maxu': lambda x, y: If(UGT(x, y), x, y), 'mins': lambda x, y: If(x < y, x, y), 'maxs': lambda x, y: If(x > y, x, y)}[k]
        return dst(join([f(x, y) for x, y in zip(lanes(a, w), lanes(b, w))]))
    if base in UNPCK:
        w, hi = UNPCK[base]
        a, b = two()
        out = []
        for la, lb in zip(lanes(a, 128), lanes(b, 128)):
            ea, eb = lanes(la, w), lanes(lb, w)
            h = len(ea) // 2
            sel = range(h, 2 * h) if hi else range(h)
            r = []
            for i in sel:
                r += [ea[i], eb[i]]
            out.append(join(r))
        return dst(join(out))
    if base == 'pshufb':
        a, b = two()
        out = []
        for la, lb in zip(lanes(a, 128), lanes(b, 128)):
            ab = lanes(la, 8)
            r = []
            for sel in lanes(simp(lb), 8):
                sel = simp(sel)
                c = conc(sel)
                if c is not None:
                    r.append(bv(0, 8) if c & 0x80 else ab[c & 15])
                else:
                    e = ab[15]
                    for k in reversed(range(15)):
                        e = If(Extract(3, 0, sel) == k, ab[k], e)
                    r.append(If(Extract(7, 7, sel) == 1, bv(0, 8), e))
            out.append(join(r))
        return dst(join(out))
    if base == 'pshufd':
        a, imm = src(1), o[2].imm
        return dst(join([join([lanes(l, 32)[(imm >> (2 * i)) & 3] for i in range(4)]) for l in lanes(a, 128)]))
    if base in ('pshuflw', 'pshufhw'):
        a, imm = src(1), o[2].imm
        out = []
        for l in lanes(a, 128):
            ws = lanes(l, 16)
            if base == 'pshuflw':
                out.append(join([ws[(imm >> (2 * i)) & 3] for i in range(4)] + ws[4:]))
            else:
                out.append(join(ws[:4] + [ws[4 + ((imm >> (2 * i)) & 3)] for i in range(4)]))
        return dst(join(out))
    if base == 'shufps':
        if vex:
            a, b, imm = src(1), src(2), o[3].imm
        else:
            a, b, imm = src(0), src(1), o[2].imm
        out = []
        for la, lb in zip(lanes(a, 128), lanes(b, 128)):
            x, y = lanes(la, 32), lanes(lb, 32)
            out.append(join([x[imm & 3], x[(imm >> 2) & 3], y[(imm >> 4) & 3], y[(imm >> 6) & 3]]))
        return dst(join(out))
    if base == 'shufpd':
        if vex:
            a, b, imm = src(1), src(2), o[3].imm
        else:
            a, b, imm = src(0), src(1), o[2].imm
        out = []
        for k, (la, lb) in enumerate(zip(lanes(a, 128), lanes(b, 128))):
            x, y = lanes(la, 64), lanes(lb, 64)
            out.append(join([x[(imm >> (2 * k)) & 1], y[(imm >> (2 * k + 1)) & 1]]))
        return dst(join(out))
    if base in ('movlhps', 'movhlps'):
        if vex:
            a, b = src(1, 128), src(2, 128)
        else:
            a, b = src(0, 128), src(1, 128)
        r = Concat(Extract(63, 0, b), Extract(63, 0, a)) if base == 'movlhps' else Concat(Extract(127, 64, a), Extract(127, 64, b))
        return dst(r, 128)
    if base == 'palignr':
        if vex:
            a, b, n = src(1), src(2), o[3].imm
        else:
            a, b, n = src(0), src(1), o[2].imm
        out = []
        for la, lb in zip(lanes(a, 128), lanes(b, 128)):
            cat = Concat(la, lb)
            out.append(Extract(127, 0, LShR(cat, 8 * n)) if n < 32 else bv(0, 128))
        return dst(join(out))
    if base in ('pinsrb', 'pinsrw', 'pinsrd', 'pinsrq'):
        w = {'b': 8, 'w': 16, 'd': 32, 'q': 64}[base[-1]]
        if vex:
            a, s, idx = src(1, 128), o[2], o[3].imm
        else:
            a, s, idx = src(0, 128), o[1], o[2].imm
        if s.kind == 'gpr':
            v = Extract(w - 1, 0, st.r[s.reg])
        else:
            v = E.load(st, E.ea(st, ins, s), w // 8, ins)
        ls = lanes(a, w)
        ls[idx % len(ls)] = v
        return dst(join(ls), 128)
    if base in ('pextrb', 'pextrw', 'pextrd', 'pextrq'):
        w = {'b': 8, 'w': 16, 'd': 32, 'q': 64}[base[-1]]
        a, idx = Extract(127, 0, st.v[o[1].reg]), o[2].imm
        v = lanes(a, w)[idx % (128 // w)]
        if o[0].kind == 'gpr':
            st.r[o[0].reg] = simp(ZeroExt(64 - w, v))
        else:
            E.store(st, E.ea(st, ins, o[0]), w // 8, v, ins)
        return True
    if base == 'phminposuw':
        a = src(1, 128)
        ws = lanes(a, 16)
        mn, idx = ws[0], bv(0, 16)
        for i in range(1, 8):
            lt = ULT(ws[i], mn)
            idx = If(lt, bv(i, 16), idx)
            mn = If(lt, ws[i], mn)
        return dst(ZeroExt(96, Concat(idx, mn)), 128)
    if base == 'pmovmskb':
        a = E.getv(st, ins, o[1], o[1].width)
        bits = [Extract(8 * i + 7, 8 * i + 7, a) for i in range(o[1].width // 8)]
        st.r[o[0].reg] = simp(ZeroExt(64 - len(bits), join(bits)))
        return True
    if base in ('pblendvb',):
        if vex:
            a, b, msk = src(1), src(2), src(3)
        else:
            a, b, msk = src(0), src(1), Extract(127, 0, st.v[0])
        return dst(join([If(Extract(7, 7, k) == 1, y, x) for x, y, k in zip(lanes(a, 8), lanes(b, 8), lanes(msk, 8))]))
    if base in ('pblendw', 'pblendd'):
        w = 16 if base == 'pblendw' else 32
        if vex:
            a, b, imm = src(1), src(2), o[3].imm
        else:
            a, b, imm = src(0), src(1), o[2].imm
        per = 128 // w
        ls = []
        for i, (x, y) in enumerate(zip(lanes(a, w), lanes(b, w))):
            bit = (imm >> (i % 8 if w == 16 else i)) & 1 if w == 16 else (imm >> i) & 1
            ls.append(y if bit else x)
        return dst(join(ls))
    if base == 'ptest':
        a, b = E.getv(st, ins, o[0], W), E.getv(st, ins, o[1], W)
        st.flags = ('expl', {'zf': simp((a & b) == 0), 'cf': simp((~a & b) == 0), 'sf': BoolVal(False), 'of': BoolVal(False)}, None, bv(0, 8), 8, None)
        return True
    if base in ('aesenc', 'aesenclast', 'aesdec', 'aesdeclast'):
        f = {'aesenc': AESENC, 'aesenclast': AESENCLAST, 'aesdec': AESDEC, 'aesdeclast': AESDECLAST}[base]
        a, b = two()
        return dst(join([f(x, y) for x, y in zip(lanes(a, 128), lanes(b, 128))]))
    if base == 'aesimc':
        return dst(AESIMC(src(1, 128)), 128)
    if base == 'aeskeygenassist':
        a, rcon = src(1, 128), o[2].imm
        x1, x3 = Extract(63, 32, a), Extract(127, 96, a)
        s1, s3 = SBOX32(x1), SBOX32(x3)
        rot = lambda x: Concat(Extract(7, 0, x), Extract(31, 8, x))
        rc = bv(rcon, 32)
        return dst(Concat(rot(s3) ^ rc, s3, rot(s1) ^ rc, s1), 128)
    if base == 'pclmulqdq' or base in ('pclmullqlqdq', 'pclmulhqlqdq', 'pclmullqhqdq', 'pclmulhqhqdq'):
        if base == 'pclmulqdq':
            if vex:
                a, b, imm = src(1), src(2), o[3].imm
            else:
                a, b, imm = src(0), src(1), o[2].imm
        else:
            a, b = two()
            imm = {'pclmullqlqdq': 0x00, 'pclmulhqlqdq': 0x01, 'pclmullqhqdq': 0x10, 'pclmulhqhqdq': 0x11}[base]
        out = []
        for la, lb in zip(lanes(a, 128), lanes(b, 128)):
            x = Extract(127, 64, la) if imm & 1 else Extract(63, 0, la)
            y = Extract(127, 64, lb) if imm & 0x10 else Extract(63, 0, lb)
            out.append(clmul(x, y))
        return dst(join(out))
    if m in ('vinserti128', 'vinsertf128'):
        a, b, imm = src(1, 256), E.getv(st, ins, o[2], 128), o[3].imm
        ls = lanes(a, 128)
        ls[imm & 1] = b
        return dst(join(ls), 256)
    if m in ('vextracti128', 'vextractf128'):
        a, imm = Extract(255, 0, st.v[o[1].reg]), o[2].imm
        v = lanes(a, 128)[imm & 1]
        E.putv(st, ins, o[0], v, 128, True)
        return True
    if m in ('vperm2i128', 'vperm2f128'):
        a, b, imm = src(1, 256), src(2, 256), o[3].imm
        pool = lanes(a, 128) + lanes(b, 128)
        sel = lambda c: bv(0, 128) if c & 8 else pool[c & 3]
        return dst(join([sel(imm & 0xf), sel((imm >> 4) & 0xf)]), 256)
    if m in ('vpbroadcastb', 'vpbroadcastw', 'vpbroadcastd', 'vpbroadcastq', 'vbroadcastss', 'vbroadcastsd', 'vbroadcasti128', 'vbroadcastf128'):
        w = {'b': 8, 'w': 16, 'd': 32, 'q': 64, 's': 32}.get(m[-1], 128) if not m.endswith('128') else 128
        if m == 'vbroadcastsd':
            w = 64
        if o[1].kind == 'vec':
            v = Extract(w - 1, 0, st.v[o[1].reg])
        elif o[1].kind == 'gpr':
            v = Extract(w - 1, 0, st.r[o[1].reg])
        else:
            v = E.load(st, E.ea(st, ins, o[1]), w // 8, ins)
        return dst(join([v] * (W // w)))
    if base == 'movddup' or base == 'movshdup' or base == 'movsldup':
        return None
    return None


def clmul(x, y):
    cx, cy = conc(simp(x)), conc(simp(y))
    if cx is not None and cy is not None:
        r = 0
        for i in range(64):
            if (cy >> i) & 1:
                r ^= cx << i
        return bv(r, 128)
    return CLMUL(x, y)


def kmask(st, x, nelem):
    """the concrete opmask of operand x restricted to nelem elements (the kernels build their masks from a concrete length)"""
    kv = conc(simp(st.k[x.mask]))
    if kv is None:
        raise Unsupported('symbolic opmask k%d' % x.mask)
    return kv & ((1 << nelem) - 1)


EVEX_MOVES = {'vmovdqu8': 8, 'vmovdqu16': 16, 'vmovdqu32': 32, 'vmovdqu64': 64, 'vmovdqa32': 32, 'vmovdqa64': 64, 'vmovups': 32, 'vmovaps': 32, 'vmovupd': 64, 'vmovapd': 64}


def avx512(E, st, ins):
    """Masked EVEX forms: the exact subset used by the VAES kernels (masked byte/element moves with a CONCRETE mask:
    masked-out elements are neither read nor written, which is what C07 is about).  Everything else is unsupported."""
    m, o = ins.mnem, ins.ops
    if any(x.bcast for x in o):
        return None
    if m in EVEX_MOVES and len(o) == 2:
        ew = EVEX_MOVES[m]
        d, s = o[0], o[1]
        W = max([x.width for x in o if x.kind == 'vec'] or [128])
        n = W // ew
        mk = kmask(st, d, n) if d.mask is not None else (1 << n) - 1
        eb = ew // 8
        if d.kind == 'vec':
            old = lanes(Extract(W - 1, 0, st.v[d.reg]), ew)
            if s.kind == 'vec':
                new = lanes(Extract(W - 1, 0, st.v[s.reg]), ew)
            else:
                a = E.ea(st, ins, s)
                new = [E.load(st, simp(a + i * eb), eb, ins) if (mk >> i) & 1 else None for i in range(n)]
            res = [new[i] if (mk >> i) & 1 else (bv(0, ew) if d.zeroing else old[i]) for i in range(n)]
            E.putv(st, ins, d, join(res), W, True)
            return True
        if d.kind == 'mem' and s.kind == 'vec':
            a = E.ea(st, ins, d)
            src = lanes(Extract(W - 1, 0, st.v[s.reg]), ew)
            for i in range(n):
                if (mk >> i) & 1:
                    E.store(st, simp(a + i * eb), eb, src[i], ins)
            return True
    # any other masked register-destination form: compute the unmasked result, then merge / zero per element with the concrete mask
    d = o[0]
    if d.kind == 'vec' and d.mask is not None and len(o) >= 2 and m not in EVEX_MOVES:
        ew = {'b': 8, 'w': 16, 'd': 32, 'q': 64}.get(m[-1])
        if m.endswith('ps'):
            ew = 32
        if m.endswith('pd'):
            ew = 64
        if ew is None:
            return None
        W = d.width
        mk = kmask(st, d, W // ew)
        old = Extract(W - 1, 0, st.v[d.reg])
        km, kz = d.mask, d.zeroing
        d.mask, d.zeroing = None, False
        try:
            r = execute(E, st, ins)
        finally:
            d.mask, d.zeroing = km, kz
        if r is None:
            return None
        new = lanes(Extract(W - 1, 0, st.v[d.reg]), ew)
        oldl = lanes(old, ew)
        res = [new[i] if (mk >> i) & 1 else (bv(0, ew) if kz else oldl[i]) for i in range(W // ew)]
        E.putv(st, ins, d, join(res), W, True)
        return True
    return None


def evex_unmasked(E, st, ins):
    """Unmasked AVX-512 lane shuffles / k-register moves.  Returns True when handled, None otherwise."""
    m, o = ins.mnem, ins.ops
    if m in ('kmovb', 'kmovw', 'kmovd', 'kmovq'):
        w = {'b': 8, 'w': 16, 'd': 32, 'q': 64}[m[-1]]
        d, s = o[0], o[1]
        if s.kind == 'k':
            v = Extract(w - 1, 0, st.k[s.reg])
        elif s.kind == 'gpr':
            v = Extract(w - 1, 0, st.r[s.reg])
        else:
            v = E.load(st, E.ea(st, ins, s), w // 8, ins)
        if d.kind == 'k':
            st.k[d.reg] = simp(ZeroExt(64 - w, v)) if w < 64 else simp(v)
        elif d.kind == 'gpr':
            ww = max(w, 32)
            st.r[d.reg] = simp(ZeroExt(64 - w, v)) if w < 64 else simp(v)
        else:
            E.store(st, E.ea(st, ins, d), w // 8, v, ins)
        return True
    km = re.match(r'^k(shiftl|shiftr|or|and|andn|xor|xnor|not|ortest|test|add)([bwdq])$', m)
    if km:
        op, w = km.group(1), {'b': 8, 'w': 16, 'd': 32, 'q': 64}[km.group(2)]
        K = lambda x: Extract(w - 1, 0, st.k[x.reg])
        if op in ('shiftl', 'shiftr'):
            a, n = K(o[1]), o[2].imm & 0xff
            r = bv(0, w) if n >= w else ((a << n) if op == 'shiftl' else LShR(a, n))
        elif op == 'not':
            r = ~K(o[1])
        elif op in ('ortest', 'test'):
            a, b = K(o[0]), K(o[1])
            if op == 'ortest':
                t = a | b
                st.flags = ('expl', {'zf': simp(t == 0), 'cf': simp(t == bv(-1, w)), 'sf': BoolVal(False), 'of': BoolVal(False), 'pf': BoolVal(False)}, None, bv(0, 8), 8, None)
            else:
                st.flags = ('expl', {'zf': simp((a & b) == 0), 'cf': simp((~a & b) == 0), 'sf': BoolVal(False), 'of': BoolVal(False), 'pf': BoolVal(False)}, None, bv(0, 8), 8, None)
            return True
        else:
            a, b = K(o[1]), K(o[2])
            r = {'or': a | b, 'and': a & b, 'andn': ~a & b, 'xor': a ^ b, 'xnor': ~(a ^ b), 'add': a + b}[op]
        st.k[o[0].reg] = simp(ZeroExt(64 - w, r)) if w < 64 else simp(r)
        return True
    W = max([x.width for x in o if x.kind == 'vec'] or [128])
    cm = re.match(r'^vpcmp(eq|neq|lt|le|nlt|nle|gt)?(u?)([bwdq])$', m)
    if cm and o[0].kind == 'k':
        pred, uns, ew = cm.group(1), cm.group(2) == 'u', {'b': 8, 'w': 16, 'd': 32, 'q': 64}[cm.group(3)]
        if pred is None:
            pred = ['eq', 'lt', 'le', 'false', 'neq', 'nlt', 'nle', 'true'][o[3].imm & 7]
        a, b = E.getv(st, ins, o[1], W), E.getv(st, ins, o[2], W)
        bits = []
        for x, y in zip(lanes(a, ew), lanes(b, ew)):
            lt = ULT(x, y) if uns else (x < y)
            le = ULE(x, y) if uns else (x <= y)
            c = {'eq': x == y, 'neq': x != y, 'lt': lt, 'le': le, 'nlt': Not(lt), 'nle': Not(le), 'gt': Not(le), 'false': BoolVal(False), 'true': BoolVal(True)}[pred]
            bits.append(If(c, bv(1, 1), bv(0, 1)))
        r = join(bits)
        st.k[o[0].reg] = simp(ZeroExt(64 - r.size(), r))
        return True
    if m in ('vpermi2q', 'vpermi2d', 'vpermt2q', 'vpermt2d', 'vpermi2w', 'vpermt2w', 'vpermi2b', 'vpermt2b'):
        ew = {'b': 8, 'w': 16, 'd': 32, 'q': 64}[m[-1]]
        n = W // ew
        d0, s1, s2 = E.getv(st, ins, o[0], W), E.getv(st, ins, o[1], W), E.getv(st, ins, o[2], W)
        if m.startswith('vpermi2'):
            idx, ta, tb = d0, s1, s2
        else:
            idx, ta, tb = s1, d0, s2
        tab = lanes(ta, ew) + lanes(tb, ew)
        res = []
        for ix in lanes(simp(idx), ew):
            c = conc(simp(ix))
            if c is None:
                raise Unsupported('%s with a symbolic index' % m)
            res.append(tab[c & (2 * n - 1)])
        E.putv(st, ins, o[0], join(res), W, True)
        return True
    if m in ('vpermq', 'vpermd', 'vpermw', 'vpermb') and len(o) == 3 and o[1].kind == 'vec' and o[2].kind != 'imm':
        ew = {'b': 8, 'w': 16, 'd': 32, 'q': 64}[m[-1]]
        n = W // ew
        idx, tab = E.getv(st, ins, o[1], W), lanes(E.getv(st, ins, o[2], W), ew)
        res = []
        for ix in lanes(simp(idx), ew):
            c = conc(simp(ix))
            if c is None:
                raise Unsupported('%s with a symbolic index' % m)
            res.append(tab[c & (n - 1)])
        E.putv(st, ins, o[0], join(res), W, True)
        return True
    if m in ('vshufi64x2', 'vshuff64x2', 'vshufi32x4', 'vshuff32x4'):
        a, b, imm = E.getv(st, ins, o[1], W), E.getv(st, ins, o[2], W), o[3].imm
        la, lb = lanes(a, 128), lanes(b, 128)
        if W == 512:
            res = [la[imm & 3], la[(imm >> 2) & 3], lb[(imm >> 4) & 3], lb[(imm >> 6) & 3]]
        else:
            res = [la[imm & 1], lb[(imm >> 1) & 1]]
        E.putv(st, ins, o[0], join(res), W, True)
        return True
    if m in ('vextracti32x4', 'vextractf32x4', 'vextracti64x2', 'vextractf64x2', 'vextracti64x4', 'vextractf64x4', 'vextracti32x8', 'vextractf32x8'):
        w = 256 if m.endswith(('64x4', '32x8')) else 128
        sw = o[1].width
        v = lanes(Extract(sw - 1, 0, st.v[o[1].reg]), w)[o[2].imm % (sw // w)]
        E.putv(st, ins, o[0], v, w, True)
        return True
    if m in ('vinserti32x4', 'vinsertf32x4', 'vinserti64x2', 'vinsertf64x2', 'vinserti64x4', 'vinsertf64x4', 'vinserti32x8', 'vinsertf32x8'):
        w = 256 if m.endswith(('64x4', '32x8')) else 128
        a, b, imm = E.getv(st, ins, o[1], W), E.getv(st, ins, o[2], w), o[3].imm
        ls = lanes(a, w)
        ls[imm % (W // w)] = b
        E.putv(st, ins, o[0], join(ls), W, True)
        return True
    if m in ('vbroadcasti32x4', 'vbroadcastf32x4', 'vbroadcasti64x2', 'vbroadcastf64x2', 'vbroadcasti64x4', 'vbroadcastf64x4', 'vbroadcasti32x8', 'vbroadcastf32x8'):
        w = 256 if m.endswith(('64x4', '32x8')) else 128
        v = E.getv(st, ins, o[1], w)
        E.putv(st, ins, o[0], join([v] * (W // w)), W, True)
        return True
    if m in ('valignq', 'valignd'):
        ew = 64 if m == 'valignq' else 32
        a, b, imm = E.getv(st, ins, o[1], W), E.getv(st, ins, o[2], W), o[3].imm
        n = W // ew
        sh = imm % n
        both = lanes(b, ew) + lanes(a, ew)      # src2 low, src1 high
        E.putv(st, ins, o[0], join(both[sh:sh + n]), W, True)
        return True
    if m in ('vpternlogq', 'vpternlogd'):
        c_, a, b, imm = E.getv(st, ins, o[0], W), E.getv(st, ins, o[1], W), E.getv(st, ins, o[2], W), o[3].imm
        if imm == 0x96:
            E.putv(st, ins, o[0], c_ ^ a ^ b, W, True)      # three-way XOR (the common use in the AES/GHASH kernels)
            return True
        res = bv(0, W)
        for idx in range(8):
            if (imm >> idx) & 1:
                t = (c_ if idx & 4 else ~c_) & (a if idx & 2 else ~a) & (b if idx & 1 else ~b)
                res = res | t
        E.putv(st, ins, o[0], res, W, True)
        return True
    return None
