"""C18 sweep: calling-convention obligations for every global function of an object, decided per return site by z3."""
import time, traceback
from z3 import Or, And, Not, sat, unsat, BitVec, BitVecVal
from vlib.asmx.engine import Engine, State, Region, CellRegion, bv, fresh, simp, conc, Unsupported, BoundExceeded, RET_SENTINEL
from vlib.asmx.decode import Obj, R64

CALLEE_SAVED = [3, 5, 12, 13, 14, 15]   # rbx rbp r12-r15
CALLER_SAVED = [0, 1, 2, 6, 7, 8, 9, 10, 11]
STACK_BASE = 0x7f0000000
STACK_SIZE = 0x20000


def abi_stub(E, st, target):
    """An external callee: clobbers caller-saved registers, all vector registers and flags - plus whatever callee-saved
    registers the callee's OWN sweep showed it does not restore (asm-internal kernels with a private convention)."""
    E.called.add(target)
    for i in getattr(E, 'summaries', {}).get(target, ()):
        st.r[i] = fresh(64, 'clob')
    for i in CALLER_SAVED:
        st.r[i] = fresh(64, 'ret')
    for i in range(32):
        st.v[i] = fresh(512, 'vret')
    for i in range(8):
        st.k[i] = fresh(64, 'kret')
    st.flags = None


def fresh_state(obj, align):
    st = State()
    stack = CellRegion('stack', STACK_BASE, STACK_SIZE)
    ro = Region('rodata', obj.RODATA_BASE, max(len(obj.rodata), 1), writable=False, init=obj.rodata or b'\0')
    tx = Region('text', obj.TEXT_BASE, max(len(obj.text_bytes), 1), writable=False, init=obj.text_bytes or b'\0')
    st.regions = [stack, ro, tx]
    rsp0 = STACK_BASE + STACK_SIZE - 0x1000 - 8 - align   # entry rsp = 8 mod 16
    st.r[4] = bv(rsp0, 64)
    stack.put(rsp0 - STACK_BASE, 8, BitVecVal(RET_SENTINEL, 64))
    return st, rsp0


def check_function(obj, name, entry, align=0, max_steps=400000, loop_bound=2, time_budget=120.0, summaries=None, insn_budget=800000):
    """Returns dict(name, result in held|violated|inconclusive, paths, steps, queries, detail, havoc)."""
    from vlib.asmx.engine import reset_size_cache
    reset_size_cache()
    E = Engine(obj, mode='sweep', max_steps=max_steps, loop_bound=loop_bound)
    E.memo = {}
    E.called = set()
    E.summaries = summaries or {}
    E.stubs['*'] = abi_stub
    E.stubs['*ind*'] = abi_stub
    st, rsp0 = fresh_state(obj, align)
    init = {i: st.r[i] for i in CALLEE_SAVED}
    t0 = time.time()
    out = dict(name=name, align=align, paths=0, queries=0, detail='', havoc=0)
    try:
        fin = run_with_budget(E, st, entry, t0 + time_budget, insn_budget)
    except (Unsupported, BoundExceeded) as e:
        out.update(result='inconclusive', detail=str(e)[:300], steps=E.insn_count, secs=time.time() - t0)
        return out
    except RecursionError as e:
        out.update(result='inconclusive', detail='recursion limit in z3 term construction', steps=E.insn_count, secs=time.time() - t0)
        return out
    if not fin:
        out.update(result='inconclusive', detail='no path reached a return within the loop bound', steps=E.insn_count, secs=time.time() - t0)
        return out
    bad = []
    clob = set()
    for f in fin:
        out['paths'] += 1
        conds = [f.r[i] != init[i] for i in CALLEE_SAVED] + [f.r[4] != bv(rsp0 + 8, 64)]
        viol = Or(*conds)
        # syntactic fast path, else solver query under the path condition
        triv = all(f.r[i].eq(init[i]) for i in CALLEE_SAVED) and conc(f.r[4]) == rsp0 + 8
        if not triv:
            r, m = E.check(f, viol)
            if r == sat:
                clob |= set(i for i in CALLEE_SAVED if not f.r[i].eq(init[i]))
                which = [R64[i] for i in CALLEE_SAVED if not f.r[i].eq(init[i])] + (['rsp'] if conc(f.r[4]) != rsp0 + 8 else [])
                bad.append('callee-saved state not restored on a path: %s (path through %s)' % (','.join(which), ' '.join('%x' % a for a, c in f.trace_branches[-8:])))
            elif r != unsat:
                out.update(result='inconclusive', detail='solver %s' % r)
        else:
            E.nq += 0
        if f.df:
            bad.append('direction flag set on return')
        if f.mxcsr_written:
            bad.append('MXCSR written (%s)' % [e for e in f.events if e[0] == 'mxcsr-write'][:1])
        for e in f.events:
            if e[0] == 'fp-or-x87' and e[2].split()[0] in ('emms', 'fld', 'fstp', 'fild', 'fnsave', 'fxrstor', 'xrstor', 'frstor'):
                bad.append('x87/MMX state touched: ' + e[2])
        for flt in f.faults:
            bad.append('%s at .text+%x' % (flt[0], flt[3] or 0))
    out.update(steps=E.insn_count, queries=E.nq, secs=time.time() - t0, havoc=sum(E.havoc_count.values()), pruned=E.paths_pruned,
               events=sorted(set(e[0] for f in fin for e in f.events)), calls=sorted(str(c) for c in E.called), clobbers=sorted(clob))
    if bad:
        out.update(result='violated', detail='; '.join(sorted(set(bad)))[:600])
    elif out.get('result') != 'inconclusive':
        out['result'] = 'held'
    return out


def run_with_budget(E, st, entry, deadline, insn_budget=10**9):
    st.ip = entry
    work, finished = [st], []
    while work:
        cur = work.pop()
        while cur is not None and cur.ip is not None:
            if cur.steps > E.max_steps:
                raise BoundExceeded('instruction budget exceeded')
            if E.insn_count > insn_budget:
                raise BoundExceeded('instruction budget %d exceeded, %d paths finished' % (insn_budget, len(finished)))
            if (E.insn_count & 1023) == 0 and time.time() > deadline:
                raise BoundExceeded('time budget exceeded after %d instructions, %d paths finished' % (E.insn_count, len(finished)))
            succ = E.step(cur)
            if not succ:
                cur = None
                break
            if len(succ) > 1:
                work.extend(succ[1:])
            cur = succ[0]
        if cur is not None:
            finished.append(cur)
    return finished


def sweep_object(path, aligns=(0,), only=None, time_budget=120.0, summaries=None, insn_budget=800000):
    res = []
    try:
        obj = Obj(path)
    except Exception as e:
        return [dict(name=path, result='inconclusive', detail='decode failed: %s' % e)]
    for name, entry in obj.functions():
        if obj.syms[name][2] != 'FUNC':
            continue
        if only and name not in only:
            continue
        for al in aligns:
            try:
                r = check_function(obj, name, entry, al, time_budget=time_budget, summaries=summaries, insn_budget=insn_budget)
            except Exception as e:
                r = dict(name=name, result='inconclusive', detail='engine error: %s' % traceback.format_exc()[-300:], align=al)
            r['object'] = path
            res.append(r)
    return res


def jobwrite_function(obj, name, entry, argidx, allowed, job_size=216, summaries=None, insn_budget=800000, time_budget=600.0):
    """C14 (machine-code side): sweep `name` with its IMB_JOB* parameter (System V argument `argidx`) pointing at a tracked descriptor object
    whose bytes are symbolic.  On every explored return path each descriptor byte outside `allowed` (list of (lo, hi) ranges the library may
    write) must still equal its initial value (a read-modify-write that stores the old value back is not an alteration).
    Returns dict(name, result held|violated|inconclusive, writes=[offsets], bad=[(off, insn addr/text)])."""
    from vlib.asmx.engine import reset_size_cache, simp, Region
    reset_size_cache()
    E = Engine(obj, mode='sweep', max_steps=400000, loop_bound=2)
    E.memo = {}
    E.called = set()
    E.summaries = summaries or {}
    E.stubs['*'] = abi_stub
    E.stubs['*ind*'] = abi_stub
    st, rsp0 = fresh_state(obj, 0)
    JOBA = 0x1900000
    job = Region('job', JOBA, job_size)
    st.regions.append(job)
    init = [job.get(i) for i in range(job_size)]
    st.r[[7, 6, 2, 1, 8, 9][argidx]] = bv(JOBA, 64)
    where = {}

    def on_addr(s, ins, e, n, is_store):
        c = conc(e)
        if is_store and c is not None and JOBA <= c < JOBA + job_size:
            for k in range(n):
                where.setdefault(c - JOBA + k, (ins.addr if ins else 0, ins.text if ins else ''))
    E.on_addr = on_addr

    def key_extra(s):
        rg = [r for r in s.regions if r.name == 'job'][0]
        out = []
        for o_ in sorted(rg.written):
            b = rg.get(o_)
            c = conc(b)
            out.append((o_, 'same' if b.eq(init[o_]) else (c if c is not None else 'other')))
        return (tuple(out),)
    E.key_extra = key_extra
    t0 = time.time()
    out = dict(name=name, paths=0)
    try:
        fin = run_with_budget(E, st, entry, t0 + time_budget, insn_budget)
    except (Unsupported, BoundExceeded, RecursionError) as e:
        out.update(result='inconclusive', detail=str(e)[:300], steps=E.insn_count)
        return out
    bad, writes = [], set()
    for f in fin:
        rg = [r for r in f.regions if r.name == 'job'][0]
        for o_ in sorted(rg.written):
            writes.add(o_)
            if any(lo <= o_ < hi for lo, hi in allowed):
                continue
            b = rg.get(o_)
            if b.eq(init[o_]):
                continue
            r, m = E.check(f, b != init[o_])
            if r != unsat:
                bad.append((o_, where.get(o_, (0, ''))[0], where.get(o_, (0, ''))[1], str(r)))
    bad = sorted(set(bad))
    out.update(paths=len(fin), steps=E.insn_count, secs=time.time() - t0, writes=sorted(writes), bad=bad,
               result='violated' if bad else ('held' if fin else 'inconclusive'), detail='' if fin else 'no path reached a return')
    return out
