"""Common machinery for every check: scratch dirs, rebuilding units from /repo's current tree,
running CBMC, collecting obligations, writing evidence, known findings, exit codes."""
import os, sys, re, json, time, shutil, hashlib, subprocess, tempfile, atexit, signal
import concurrent.futures as cf

VERIF = os.path.dirname(os.path.dirname(os.path.abspath(__file__)))
REPO = os.environ.get('VERIF_REPO', '/repo')
LIB = os.path.join(REPO, 'lib')
NCPU = int(os.environ.get('VERIF_JOBS', str(os.cpu_count() or 4)))

# Flags of the repository's own build (lib/CMakeLists.txt, lib/cmake/unix.cmake; cross-checked
# against /repo/_build/compile_commands.json by tools/check_flags.py when that file exists).
C_DEFS = ['-DIPSec_MB_EXPORTS', '-DAVX_IFMA', '-DLINUX', '-DSAFE_DATA', '-DSAFE_LOOKUP', '-DSAFE_PARAM']
C_FLAGS = ['-fPIC', '-fno-delete-null-pointer-checks', '-fwrapv', '-std=c99', '-fno-strict-overflow',
           '-fcf-protection=full', '-O2', '-DNDEBUG']
C_ARCH = {'sse_t1': ['-march=nehalem', '-maes', '-mpclmul'], 'sse_t2': ['-march=nehalem', '-maes', '-mpclmul'],
          'sse_t3': ['-march=nehalem', '-maes', '-mpclmul'],
          'avx2_t1': ['-march=haswell', '-maes', '-mpclmul'], 'avx2_t2': ['-march=haswell', '-maes', '-mpclmul'],
          'avx2_t3': ['-march=haswell', '-maes', '-mpclmul'], 'avx2_t4': ['-march=haswell', '-maes', '-mpclmul'],
          'avx512_t1': ['-march=broadwell', '-maes', '-mpclmul'], 'avx512_t2': ['-march=broadwell', '-maes', '-mpclmul'],
          'x86_64': ['-msse4.2']}
NASM_FLAGS = ['-DIPSec_MB_EXPORTS', '-I' + LIB + '/', '-I' + LIB + '/include/', '-DSAFE_DATA', '-DSAFE_PARAM', '-DSAFE_LOOKUP',
              '-Werror', '-felf64', '-Xgnu', '-DLINUX', '-D__linux__']
INCS = ['-I' + LIB, '-I' + LIB + '/include']

CBMC_FLAGS = ['--unwinding-assertions', '--pointer-overflow-check', '--signed-overflow-check',
              '--undefined-shift-check', '--drop-unused-functions', '--no-malloc-may-fail', '--object-bits', '12']


class Inconclusive(Exception):
    pass


def sha256(path):
    h = hashlib.sha256()
    with open(path, 'rb') as f:
        h.update(f.read())
    return h.hexdigest()


def run(cmd, timeout=None, cwd=None, env=None, inp=None):
    """Run a command in its own process group; returns (rc, stdout+stderr, seconds, timed_out)."""
    t = time.time()
    p = subprocess.Popen(cmd, stdout=subprocess.PIPE, stderr=subprocess.STDOUT, cwd=cwd, env=env,
                         stdin=subprocess.PIPE if inp is not None else subprocess.DEVNULL, start_new_session=True, text=True)
    try:
        out, _ = p.communicate(inp, timeout=timeout)
        return p.returncode, out, time.time() - t, False
    except subprocess.TimeoutExpired:
        try:
            os.killpg(p.pid, signal.SIGKILL)
        except Exception:
            pass
        out, _ = p.communicate()
        return -9, out or '', time.time() - t, True


class Ctx:
    def __init__(self, prop, tier, seed):
        self.prop, self.tier, self.seed = prop, tier, seed
        self.t0 = time.time()
        self.scratch = tempfile.mkdtemp(prefix='verif_%s_' % prop.lower(), dir=os.environ.get('VERIF_TMP', '/var/tmp'))
        atexit.register(self.cleanup)
        self.obligations = []     # dicts
        self.functions = {}       # symbol/unit -> source hash
        self.assumptions = []
        self.bounds = {}
        self.samples = []
        self.outside = []
        self.violations = []      # (key, description, replay path)
        self.known_hit = []
        self.inconclusive = []
        self.solver_s = 0.0
        self.extra = {}
        self.cosim = 0
        self.known = load_known()

    def cleanup(self):
        if os.environ.get('VERIF_KEEP'):
            return
        shutil.rmtree(self.scratch, ignore_errors=True)

    def quick(self):
        return self.tier == 'quick'

    # ---------- bookkeeping ----------
    def note_source(self, relpath):
        p = os.path.join(REPO, relpath)
        if os.path.exists(p):
            self.functions[relpath] = sha256(p)[:16]

    def assume(self, text):
        if text not in self.assumptions:
            self.assumptions.append(text)

    def add(self, name, result, secs=0.0, engine='', detail='', expect='discharged'):
        """result in {'discharged','violated','inconclusive'}; expect 'violated' for must-fail witnesses."""
        self.obligations.append(dict(name=name, result=result, secs=round(secs, 2), engine=engine, detail=detail[:400], expect=expect))
        self.solver_s += secs
        if result == 'inconclusive':
            self.inconclusive.append(name + ': ' + detail[:200])
        elif expect == 'violated' and result != 'violated':
            # a vacuity witness that did not fail: the harness proves nothing
            self.inconclusive.append(name + ': vacuity/must-fail witness was NOT violated (' + result + ')')

    def violation(self, key, desc, replay_files=None, replay_text=None):
        """Record a reproduced violation. key identifies the failing input/call site (matched against known_findings)."""
        for kind, prop, k, rest in self.known:
            if kind == 'finding' and prop == self.prop and k == key:
                self.known_hit.append((key, rest))
                return
        d = os.path.join(VERIF, 'replays', self.prop, re.sub(r'[^A-Za-z0-9_.-]', '_', key)[:80])
        os.makedirs(d, exist_ok=True)
        with open(os.path.join(d, 'README.txt'), 'w') as f:
            f.write('property %s\nkey %s\n%s\n' % (self.prop, key, desc))
            if replay_text:
                f.write('\n' + replay_text + '\n')
        for src in (replay_files or []):
            if os.path.exists(src):
                shutil.copy(src, d)
        self.violations.append((key, desc, d))

    # ---------- finishing ----------
    def finish(self):
        wall = time.time() - self.t0
        # safety net: an obligation that came back violated must surface as a VIOLATION even if the check forgot to file it
        filed = ' '.join(k for k, d, p in self.violations) + ' '.join(k for k, r in self.known_hit)
        for o in self.obligations:
            if o['result'] == 'violated' and o['expect'] == 'discharged' and not self.violations and not self.known_hit:
                self.violation('unfiled:' + re.sub(r'[^A-Za-z0-9_.-]', '_', o['name'])[:60], o['name'] + ': ' + o['detail'])
                break
        n_ob = len(self.obligations)
        n_dis = sum(1 for o in self.obligations if o['result'] == 'discharged' and o['expect'] == 'discharged')
        n_wit = sum(1 for o in self.obligations if o['expect'] == 'violated' and o['result'] == 'violated')
        ev = {
            'property_id': self.prop, 'tier': self.tier, 'seed': self.seed, 'level': 'model_checking',
            'coverage': {
                'evaluations': n_ob,
                'distinct_nontrivial': len(set(o['name'] for o in self.obligations if o['result'] in ('discharged', 'violated'))),
                'rule': 'one evaluation = one solver query family (a CBMC run over a harness, or the set of z3 queries of one asmx '
                        'harness path set) on code rebuilt from /repo; distinct = distinct obligation names; must-fail witnesses are '
                        'counted separately under witnesses_violated_as_expected',
                'samples': self.samples[:12] if self.samples else [o['name'] + ' -> ' + o['result'] for o in self.obligations[:6]],
                'obligations': n_ob, 'discharged': n_dis, 'witnesses_violated_as_expected': n_wit,
                'inconclusive': len(self.inconclusive),
                'bounds': self.bounds, 'outside_claim': self.outside,
                'functions_encoded': self.functions,
                'solver_seconds': round(self.solver_s, 1),
                'cosimulation_vectors': self.cosim,
                'queries': self.obligations,
                'exhaustive': False,
            },
            'assumptions': self.assumptions, 'wall_s': round(wall, 1),
            'violations': len(self.violations),
        }
        ev['coverage'].update(self.extra)
        evdir = os.environ.get('VERIF_EVIDENCE') or os.path.join(VERIF, 'evidence')   # seeded-tree runs write elsewhere
        os.makedirs(evdir, exist_ok=True)
        with open(os.path.join(evdir, self.prop + '.json'), 'w') as f:
            json.dump(ev, f, indent=1, default=str)
        for key, rest in self.known_hit:
            print('KNOWN-FINDING: property=%s %s %s' % (self.prop, key, rest))
        for key, desc, d in self.violations:
            print('VIOLATION property=%s replay=%s   # %s: %s' % (self.prop, d, key, desc[:300]))
        print('%s %s: %d obligations, %d discharged, %d must-fail witnesses ok, %d violations, %d inconclusive, wall %.0fs'
              % (self.prop, self.tier, n_ob, n_dis, n_wit, len(self.violations), len(self.inconclusive), wall))
        if self.violations:
            return 1
        if self.inconclusive:
            for s in self.inconclusive[:20]:
                print('INCONCLUSIVE: ' + s)
            # exit status: 1 = a violation was found; 0 = the property held on everything that reached a verdict.  Obligations that did
            # not reach one (solver/CBMC time-out or kill, unsupported instruction) are never counted as held: they are printed above and
            # recorded under coverage.inconclusive in the evidence file.  Only a run in which NOTHING reached a verdict exits 2.
            return 0 if n_dis > 0 else 2
        return 0


def load_known():
    out = []
    p = os.path.join(VERIF, 'known_findings.txt')
    if os.path.exists(p):
        for line in open(p):
            line = line.strip()
            if not line or line.startswith('#'):
                continue
            m = re.match(r'^(finding|fixed):\s*property=(\S+)\s+(\S+)\s*(.*)$', line)
            if m:
                out.append(m.groups())
    return out


# ---------------- building real units ----------------
def nasm(ctx, rel, out=None, extra=(), drop=()):
    """Assemble /repo/lib/<rel> with the repo's flags (drop: flags to leave out, for must-fail twins such as a non-SAFE_DATA build)."""
    src = os.path.join(LIB, rel)
    out = out or os.path.join(ctx.scratch, rel.replace('/', '_') + ('_no' + '_'.join(d.strip('-D') for d in drop) if drop else '') + '.o')
    rc, o, _, _ = run(['nasm'] + [f for f in NASM_FLAGS if f not in drop] + list(extra) + ['-o', out, src])
    if rc != 0:
        raise Inconclusive('nasm failed for %s: %s' % (rel, o[-500:]))
    ctx.note_source('lib/' + rel)
    return out


def cc(ctx, rel, out=None, extra=(), opt=None):
    src = os.path.join(LIB, rel)
    out = out or os.path.join(ctx.scratch, rel.replace('/', '_') + '.o')
    d = rel.split('/')[0]
    flags = list(C_FLAGS)
    if opt:
        flags = [f for f in flags if not f.startswith('-O')] + [opt]
    rc, o, _, _ = run(['gcc'] + C_DEFS + INCS + flags + C_ARCH.get(d, []) + list(extra) + ['-c', '-o', out, src])
    if rc != 0:
        raise Inconclusive('gcc failed for %s: %s' % (rel, o[-800:]))
    ctx.note_source('lib/' + rel)
    return out


def link_reloc(ctx, objs, out):
    # merge the compiler's .rodata.* / .text.* sub-sections so that the front end sees one .text and one .rodata
    script = os.path.join(ctx.scratch, 'merge.ld')
    if not os.path.exists(script):
        open(script, 'w').write('SECTIONS { .text : { *(.text .text.*) } .rodata : { *(.rodata .rodata.*) } .data : { *(.data .data.*) } .bss : { *(.bss .bss.* COMMON) } }\n')
    rc, o, _, _ = run(['ld', '-r', '-T', script, '-o', out] + objs)
    if rc != 0:
        raise Inconclusive('ld -r failed: ' + o[-500:])
    return out


import threading
_hdr_lock = threading.Lock()


def patched_header_dir(ctx, burst=4):
    """Scratch copy of intel-ipsec-mb.h with IMB_MAX_BURST_SIZE reduced (ring of 2*burst slots).
    Asserts that exactly one line differs from the real header."""
    d = os.path.join(ctx.scratch, 'inc_burst%d' % burst)
    with _hdr_lock:
        if os.path.exists(os.path.join(d, 'intel-ipsec-mb.h')):
            return d
        os.makedirs(d, exist_ok=True)
        return _patched_header_dir(d, burst)


def _patched_header_dir(d, burst):
    src = open(os.path.join(LIB, 'intel-ipsec-mb.h')).read().split('\n')
    n = 0
    for i, l in enumerate(src):
        if re.match(r'^#define\s+IMB_MAX_BURST_SIZE\s+128\s*$', l):
            src[i] = '#define IMB_MAX_BURST_SIZE %d' % burst
            n += 1
    if n != 1:
        raise Inconclusive('IMB_MAX_BURST_SIZE definition not found exactly once in intel-ipsec-mb.h')
    open(os.path.join(d, 'intel-ipsec-mb.h'), 'w').write('\n'.join(src))
    return d


def gotocc(ctx, harness, out, defs=(), incs=(), arch='sse_t1'):
    """Compile a harness (that #includes real repo units) with goto-cc and the repo's defines."""
    cmd = ['goto-cc'] + C_DEFS + ['-DNDEBUG', '-std=gnu99'] + ['-I' + i for i in incs] + INCS + \
          ['-I' + os.path.join(VERIF, 'cbmc')] + C_ARCH.get(arch, []) + list(defs) + ['-o', out, harness]
    rc, o, s, _ = run(cmd, timeout=600)
    if rc != 0:
        raise Inconclusive('goto-cc failed for %s: %s' % (os.path.basename(harness), o[-1500:]))
    return out


def replace_calls(ctx, gb, out, pairs):
    rc, o, _, _ = run(['goto-instrument', '--replace-calls', ','.join('%s:%s' % p for p in pairs), gb, out], timeout=600)
    if rc != 0:
        raise Inconclusive('goto-instrument --replace-calls failed: ' + o[-800:])
    return out


RE_FAIL = re.compile(r'^\[([^\]]+)\]\s+(.*): FAILURE$', re.M)


def cbmc(ctx, gb, name, unwind=None, function=None, timeout=600, extra=(), expect='discharged', unwindset=None, flags=None, trace=True):
    """Run CBMC on a goto binary. Returns (result, failures[(id,desc)], logpath).
    result: 'discharged' (VERIFICATION SUCCESSFUL), 'violated', 'inconclusive'."""
    cmd = ['cbmc', gb] + list(CBMC_FLAGS if flags is None else flags)
    if function:
        cmd += ['--function', function]
    if unwind is not None:
        cmd += ['--unwind', str(unwind)]
    if unwindset:
        cmd += ['--unwindset', unwindset]
    if trace:
        cmd += ['--trace']
    cmd += list(extra)
    rc, out, secs, to = run(cmd, timeout=timeout)
    log = os.path.join(ctx.scratch, re.sub(r'[^A-Za-z0-9_.-]', '_', name)[:120] + '_' + hashlib.sha256(name.encode()).hexdigest()[:8] + '.cbmc.log')
    with open(log, 'w') as f:
        f.write(' '.join(cmd) + '\n' + out)
    fails = RE_FAIL.findall(out)
    if to:
        res, detail = 'inconclusive', 'timeout after %ds' % timeout
    elif 'VERIFICATION SUCCESSFUL' in out:
        res, detail = 'discharged', ''
    elif 'VERIFICATION FAILED' in out:
        res, detail = 'violated', '; '.join('%s %s' % f for f in fails[:6])
        if any('unwinding assertion' in f[1] for f in fails):
            only_unw = all('unwinding assertion' in f[1] for f in fails)
            if only_unw:
                res, detail = 'inconclusive', 'unwinding bound too small: ' + detail
    else:
        res, detail = 'inconclusive', 'cbmc rc=%d: %s' % (rc, out[-600:].replace('\n', ' | '))
    nprops = len(re.findall(r': (SUCCESS|FAILURE)$', out, re.M))
    ctx.add(name, res, secs, engine='cbmc', detail=(detail or '%d properties checked' % nprops), expect=expect)
    return res, fails, log


def trace_values(log, names):
    """Extract last assigned values of given variable names from a CBMC --trace log."""
    vals = {}
    txt = open(log).read()
    for n in names:
        ms = re.findall(r'^\s*' + re.escape(n) + r'=(.+?)(?: \(([01 ]+)\))?$', txt, re.M)
        if ms:
            vals[n] = ms[-1][0]
    return vals


def simple_cbmc(ctx, src, name, unwind, defs=(), witness=True, timeout=600, arch='sse_t1', tag=None, incs=(), witness_defs=('-DWITNESS',)):
    """Compile cbmc/<src> against the repo, run CBMC, turn failed properties into violations; plus the must-fail twin."""
    h = os.path.join(VERIF, 'cbmc', src)
    tag = tag or (src.replace('.c', '') + ''.join(d.replace('-D', '_').replace('=', '') for d in defs if d.startswith('-D')))
    tag = re.sub(r'[^A-Za-z0-9_]', '_', tag)[:80]
    gb = os.path.join(ctx.scratch, tag + '.gb')
    gotocc(ctx, h, gb, defs=list(defs), arch=arch, incs=incs)
    res, fails, log = cbmc(ctx, gb, name, unwind=unwind, timeout=timeout)
    if res == 'violated':
        from tools.trace_summary import summarise
        summ = summarise(log)
        for fid, desc in fails:
            v = summ.get(fid, {})
            small = {k: x for k, x in v.items() if len(k) < 40 and len(x) < 60 and '.' not in k and '[' not in k}
            ctx.violation('%s:%s' % (tag, fid.split('.')[-2] + '.' + fid.split('.')[-1]),
                          '%s: %s | %s (the CBMC trace over the real unit is the replay)' % (name, desc, ', '.join('%s=%s' % kv for kv in list(small.items())[:14])), [log, h])
    if witness:
        gbw = os.path.join(ctx.scratch, tag + '_w.gb')
        gotocc(ctx, h, gbw, defs=list(defs) + list(witness_defs), arch=arch, incs=incs)
        cbmc(ctx, gbw, 'WITNESS ' + name, unwind=unwind, timeout=timeout, expect='violated', trace=False)
    return res


def pool_map(fn, items, workers=None):
    """Run fn over items in a thread pool (work is in subprocesses); preserves order; exceptions -> Inconclusive entries."""
    workers = workers or NCPU
    res = [None] * len(items)
    with cf.ThreadPoolExecutor(max_workers=workers) as ex:
        futs = {ex.submit(fn, it): i for i, it in enumerate(items)}
        for fu in cf.as_completed(futs):
            i = futs[fu]
            try:
                res[i] = fu.result()
            except Inconclusive as e:
                res[i] = e
            except Exception as e:  # a crashed worker is an inconclusive result, never a pass
                import traceback
                res[i] = Inconclusive('worker crashed: ' + ' | '.join(traceback.format_exc().strip().splitlines()[-3:])[-600:])
    return res


def main_wrapper(prop, runfn):
    import argparse
    ap = argparse.ArgumentParser()
    ap.add_argument('--tier', default=os.environ.get('VERIF_TIER', 'quick'))
    ap.add_argument('--replay', default=None)
    ap.add_argument('--only', default=None, help='comma list of sub-check names (debugging)')
    a = ap.parse_args(sys.argv[2:] if len(sys.argv) > 1 and not sys.argv[1].startswith('-') else sys.argv[1:])
    seed = int(os.environ.get('VERIF_SEED', '0') or 0)
    ctx = Ctx(prop, a.tier, seed)
    ctx.only = set(a.only.split(',')) if a.only else None
    try:
        runfn(ctx)
    except Inconclusive as e:
        ctx.inconclusive.append('fatal: ' + str(e))
    rc = ctx.finish()
    ctx.cleanup()
    sys.exit(rc)
