"""Native side: build the real library (or single units) from /repo's current tree and run replay/co-simulation drivers."""
import os, re, threading
from vlib.core import *

_lock = threading.Lock()


def build_full_lib(ctx):
    """cmake+ninja build of libIPSec_MB.so from the current tree in scratch (about 1 min on 16 cores). Cached per run."""
    with _lock:
        d = os.path.join(ctx.scratch, 'libbuild')
        so = os.path.join(d, 'lib', 'libIPSec_MB.so')
        if os.path.exists(so):
            return os.path.join(d, 'lib')
        os.makedirs(d, exist_ok=True)
        rc, o, _, _ = run(['cmake', '-G', 'Ninja', '-DCMAKE_BUILD_TYPE=Release', '-DBUILD_TESTING=OFF', REPO], cwd=d, timeout=300)
        if rc != 0:
            raise Inconclusive('cmake configure failed: ' + o[-500:])
        rc, o, _, _ = run(['ninja', 'IPSec_MB'], cwd=d, timeout=1800)
        if rc != 0:
            raise Inconclusive('library build failed: ' + o[-800:])
        return os.path.join(d, 'lib')


def compile_driver(ctx, src, out, libdir=None, objs=(), extra=()):
    cmd = ['gcc', '-O1', '-g', '-I' + LIB, '-I' + LIB + '/include', '-o', out, src] + list(objs) + list(extra)
    if libdir:
        cmd += ['-L' + libdir, '-lIPSec_MB', '-Wl,-rpath,' + libdir]
    rc, o, _, _ = run(cmd, timeout=300)
    if rc != 0:
        raise Inconclusive('driver compile failed (%s): %s' % (os.path.basename(src), o[-800:]))
    return out


def run_replay(ctx, srcname, args, timeout=60):
    """Compile replay_src/<srcname> against a fresh full library build and run it. Returns stdout (or None)."""
    try:
        libdir = build_full_lib(ctx)
        exe = os.path.join(ctx.scratch, srcname.replace('.c', '.exe'))
        if not os.path.exists(exe):
            compile_driver(ctx, os.path.join(VERIF, 'replay_src', srcname), exe, libdir=libdir)
        rc, o, _, to = run([exe] + list(args), timeout=timeout)
        if rc < 0 or rc > 100:
            return 'CRASH rc=%d %s' % (rc, o[-300:])
        return o
    except Inconclusive as e:
        return None


_enum = {}


def enum_table(ctx):
    if _enum:
        return _enum
    txt = open(os.path.join(LIB, 'intel-ipsec-mb.h')).read()
    names = set()
    for body in re.findall(r'typedef\s+enum\s*\{(.*?)\}\s*\w+\s*;', txt, re.S):
        body = re.sub(r'/\*.*?\*/', '', body, flags=re.S)
        for ent in body.split(','):
            m = re.match(r'\s*(IMB_[A-Z0-9_]+)\b', ent)
            if m:
                names.add(m.group(1))
    names = sorted(names)
    src = os.path.join(ctx.scratch, 'enums.c')
    with open(src, 'w') as f:
        f.write('#include <stdio.h>\n#include "intel-ipsec-mb.h"\nint main(void){\n')
        for n in names:
            f.write(' printf("%s %%lld\\n", (long long)%s);\n' % (n, n))
        f.write('return 0;}\n')
    exe = os.path.join(ctx.scratch, 'enums.exe')
    rc, o, _, _ = run(['gcc', '-w', '-I' + LIB, '-o', exe, src])
    if rc != 0:
        raise Inconclusive('enum printer failed: ' + o[-400:])
    rc, o, _, _ = run([exe])
    for line in o.splitlines():
        p = line.split()
        if len(p) == 2:
            _enum[p[0]] = int(p[1])
    return _enum


def offsets(ctx, header_lines, items, incs=()):
    """Compile an offsetof/sizeof printer against the real headers. items: list of (name, C expression)."""
    src = os.path.join(ctx.scratch, 'offs_%d.c' % (abs(hash(tuple(items))) % 100000))
    with open(src, 'w') as f:
        f.write('#include <stdio.h>\n#include <stddef.h>\n' + '\n'.join(header_lines) + '\nint main(void){\n')
        for n, e in items:
            f.write(' printf("%s %%lld\\n", (long long)(%s));\n' % (n, e))
        f.write('return 0;}\n')
    exe = src[:-2] + '.exe'
    rc, o, _, _ = run(['gcc', '-w'] + C_DEFS + INCS + ['-I' + i for i in incs] + ['-o', exe, src])
    if rc != 0:
        raise Inconclusive('offset printer failed: ' + o[-600:])
    rc, o, _, _ = run([exe])
    return {l.split()[0]: int(l.split()[1]) for l in o.splitlines() if len(l.split()) == 2}
