"""L1: real submit_new_job / RESUBMIT_JOB / complete_job (+ burst twins) against K3 stage stubs; proves K1 and stage sequencing."""
import os, re
from vlib.core import *
from tools.trace_summary import summarise
from props.ring import ARCH_FILES

MODES = {1: 'submit_new_job+RESUBMIT_JOB', 2: 'complete_job', 3: 'submit_new_burst_job+RESUBMIT_BURST_JOB', 4: 'complete_burst_job'}


def stage_symbols(arch):
    txt = open(os.path.join(LIB, ARCH_FILES[arch])).read()
    def name(m):
        r = re.search(r'^#define\s+' + m + r'\s+(\w+)\s*$', txt, re.M)
        return r.group(1) if r else m
    return [(name('SUBMIT_JOB_CIPHER'), 'stub_submit_cipher'), (name('SUBMIT_JOB_HASH'), 'stub_submit_hash'),
            (name('FLUSH_JOB_CIPHER'), 'stub_flush_cipher'), (name('FLUSH_JOB_HASH'), 'stub_flush_hash'),
            ('CALL_SUBMIT_CIPHER', 'stub_submit_cipher'), ('CALL_SUBMIT_HASH', 'stub_submit_hash'),
            ('CALL_FLUSH_CIPHER', 'stub_flush_cipher'), ('CALL_FLUSH_HASH', 'stub_flush_hash')]


def run_k1(ctx, archs=None, nj=3):
    archs = archs or (['sse_t1'] if ctx.quick() else ['sse_t1', 'avx2_t1', 'avx512_t1'])
    ctx.note_source('lib/include/mb_mgr_job_api.h')
    ctx.bounds['l1_job_universe'] = '%d jobs, arbitrary park/complete pre-state satisfying Inv; unwind %d' % (nj, 2 * nj + 3)
    ctx.assume('contract K3 stage stubs: a manager call parks the job and returns NULL or any job parked in the same manager with exactly its '
               'stage bit OR-ed in; flush returns non-NULL iff that manager is occupied (K3 itself is checked on the real assembly managers by asmx, C04)')
    h = os.path.join(VERIF, 'cbmc', 'l1.c')
    # complete_job with 2 jobs needs ~9 min / 15 GB per query (probe): thorough tier only
    modes = [1, 3] if ctx.quick() else [1, 2, 3, 4]
    # modes 2/4 need ~15 GB each: one architecture only (three at once were OOM-killed on the 62 GB sandbox); modes 1/3 on every architecture
    work = [(a, m, False) for a in archs for m in modes if m in (1, 3) or a == archs[0]] + [(archs[0], 1, True)]
    if ctx.quick():
        ctx.outside.append('L1 complete_job/complete_burst_job termination+completion (thorough tier only: ~9 min, 15 GB per query)')

    def one(w):
        a, m, wit = w
        tag = 'l1_%s_%d%s' % (a, m, '_w' if wit else '')
        gb = os.path.join(ctx.scratch, tag + '.gb')
        njm = nj if m in (1, 3) else 2
        gotocc(ctx, h, gb, defs=['-DMODE=%d' % m, '-DNJ=%d' % njm, '-DARCH_FILE="%s"' % ARCH_FILES[a]] + (['-DWITNESS'] if wit else []), arch=a)
        gi = os.path.join(ctx.scratch, tag + '.i.gb')
        cmd = ['goto-instrument']
        for x, y in stage_symbols(a):
            cmd += ['--replace-calls', '%s:%s' % (x, y)]
        rc, o, _, _ = run(cmd + [gb, gi], timeout=600)
        if rc != 0:
            raise Inconclusive('goto-instrument failed: ' + o[-500:])
        res, fails, log = cbmc(ctx, gi, '%sL1 %s [%s]' % ('WITNESS ' if wit else '', MODES[m], a), unwind=(2 * nj + 3) if m in (1, 3) else 6, timeout=1200 if m in (1, 3) else 2400,
                               expect='violated' if wit else 'discharged', trace=not wit)
        return w, res, fails, log

    for r in pool_map(one, work):
        if isinstance(r, Exception):
            ctx.inconclusive.append(str(r))
            continue
        (a, m, wit), res, fails, log = r
        if wit or res != 'violated':
            continue
        summ = summarise(log, [r'^J\[\d\]\.(status|chain_order|cipher_mode|hash_alg)$', r'^park', r'^ran', r'^g_bad$', r'^r$'])
        for fid, desc in fails:
            v = summ.get(fid, {})
            ctx.violation('L1:%s:%s:%s' % (MODES[m].split('+')[0], a, fid.split('.')[-1]),
                          '%s: %s | %s (CBMC trace over the real mb_mgr_job_api.h code is the replay)' % (MODES[m], desc, ', '.join('%s=%s' % kv for kv in list(v.items())[:16])), [log, h])
    ctx.samples.append('L1: from any park/complete state of 3 jobs, submit_new_job returns NULL or a job with status==COMPLETED; every stage once, in chain order')
