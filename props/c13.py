"""C13 (asmx precise harnesses; see DESIGN.md §4 C13)."""
from vlib.core import *
from props import asm_units

PROP = 'C13'


def run(ctx):
    asm_units.run_all(ctx, PROP)


if __name__ == '__main__':
    main_wrapper(PROP, run)
