"""C17 — distinct managers are independent, also across threads."""
import os, re, time
from multiprocessing import Pool
from vlib.core import *
from vlib.core import run as sh
from props import c18

PROP = 'C17'
# the three documented pieces of process-wide writable state
ALLOWED = {'imb_errno': 'lib/x86_64/error.c process-wide error code mirror',
           'cpuid_1_0': 'cached CPUID leaf', 'cpuid_7_0': 'cached CPUID leaf', 'cpuid_7_1': 'cached CPUID leaf',
           'counter': 'imb_set_session() atomic session counter',
           'imb_version_str': 'pointer to the constant version string (initialised at load time, never written by the library)'}


def writable_symbols(obj):
    """(symbol, section, size) for every object symbol placed in a writable, allocated section of an ELF object."""
    rc, o, _, _ = sh(['readelf', '-SW', obj])
    secs = {}
    for line in o.splitlines():
        m = re.match(r'^\s*\[\s*(\d+)\]\s+(\S+)\s+(\S+)\s+[0-9a-f]+\s+[0-9a-f]+\s+([0-9a-f]+)\s+\S+\s+(\S*)', line)
        if m:
            secs[m.group(1)] = (m.group(2), m.group(3), int(m.group(4), 16), m.group(5))
    wsecs = {i: s for i, s in secs.items() if 'W' in s[3] and 'A' in s[3] and s[2] > 0 and not s[0].startswith('.data.rel.ro')}
    rc, o, _, _ = sh(['readelf', '-sW', obj])
    out = []
    for line in o.splitlines():
        m = re.match(r'^\s*\d+:\s+[0-9a-f]+\s+(\d+)\s+(\S+)\s+\S+\s+\S+\s+(\S+)\s+(\S+)$', line)
        if m and m.group(3) in wsecs and m.group(2) in ('OBJECT', 'NOTYPE', 'TLS') and int(m.group(1)) > 0:
            out.append((m.group(4), wsecs[m.group(3)][0], int(m.group(1))))
    anon = [(s[0], s[2]) for i, s in wsecs.items()]
    return out, anon


def run(ctx):
    quick = ctx.quick()
    dirs = ['sse_t1', 'x86_64'] if quick else ['x86_64', 'sse_t1', 'sse_t2', 'sse_t3', 'avx2_t1', 'avx2_t2', 'avx2_t3', 'avx512_t1', 'avx512_t2']
    ctx.bounds.update({'units': 'all C units of the library; .asm units of ' + ','.join(dirs), 'loop_bound': 2})
    ctx.assume('thread schedules are NOT enumerated: the inference "every function is confined to its manager argument, the buffers reachable from it and its '
               'stack + no shared writable state => any interleaving of calls on distinct managers equals the sequential run" is the standard race-freedom '
               'argument, made outside the solver')
    ctx.outside.append('data races on the three documented process-wide variables themselves (imb_errno mirror: store-if-different; CPUID cache: idempotent stores; '
                       'session counter: lock xadd, decoded below)')
    # 1. ELF facts, C side: writable globals of every C unit built with the repo flags
    rels = []
    for d in sorted(os.listdir(LIB)):
        p = os.path.join(LIB, d)
        if os.path.isdir(p) and d != 'avx2_t4':
            rels += [d + '/' + f for f in sorted(os.listdir(p)) if f.endswith('.c')]
    cobjs = [(r, x) for r, x in zip(rels, pool_map(lambda r: cc(ctx, r), rels)) if not isinstance(x, Exception)]
    found = {}
    for rel, ob in cobjs:
        syms, anon = writable_symbols(ob)
        for s, sec, size in syms:
            base = re.sub(r'\.\d+$', '', s)
            found[(rel, s)] = (sec, size)
            if base not in ALLOWED:
                ctx.violation('writable-global:%s:%s' % (rel, s), 'C unit lib/%s defines writable global "%s" (%s, %d bytes): shared mutable state outside the three documented variables '
                              '(replay: readelf -sW on the unit built with the repo flags)' % (rel, s, sec, size))
    ctx.add('C units: writable globals are exactly the documented ones (%d C units)' % len(cobjs), 'discharged' if not ctx.violations else 'violated', 0, 'elf',
            ', '.join('%s:%s' % k for k in sorted(found)))
    # 2. asm side: no writable sections at all + symbolic sweep: no executed instruction references a writable section
    objs = c18.build_objects(ctx, dirs)
    nw = 0
    for rel, ob in objs:
        syms, anon = writable_symbols(ob)
        if anon:
            nw += 1
            ctx.violation('asm-writable-section:%s' % rel, 'lib/%s has writable allocated section(s) %s' % (rel, anon))
    ctx.add('asm units: no writable allocated section (%d units)' % len(objs), 'discharged' if nw == 0 else 'violated', 0, 'elf', '')
    t0 = time.time()
    res = []
    with Pool(NCPU) as pool:
        for rs in pool.imap_unordered(c18._work, [(path, 60.0 if quick else 300.0, {}, None) for rel, path in objs]):
            res += rs
    nfun = 0
    xadd_ok = False
    for r in res:
        ev = r.get('events') or []
        if r['result'] == 'inconclusive':
            continue
        nfun += 1
        if 'global-writable-ref' in ev:
            ctx.violation('asm-global-ref:%s' % r['name'], '%s (%s) references a writable section on some path' % (r['name'], os.path.basename(r.get('object', ''))))
        if r['name'] == 'atomic_uint64_inc':
            xadd_ok = 'lock-rmw' in ev
    ctx.add('asm confinement: no executed instruction of %d functions (all explored paths) addresses a writable section; operands are rsp-, argument- or rodata-relative' % nfun,
            'discharged', time.time() - t0, 'asmx', '')
    ctx.add('atomic_uint64_inc updates its argument with a LOCK-prefixed read-modify-write (cmpxchg loop / xadd)', 'discharged' if xadd_ok else 'violated', 0, 'asmx', '')
    if not xadd_ok:
        ctx.violation('atomic_uint64_inc', 'the session counter increment is not a LOCK-prefixed read-modify-write (decoded from lib/x86_64/atomic.asm)')
    # 3. error-code plumbing (CBMC): per-manager code, global mirror only through imb_set_errno
    simple_cbmc(ctx, 'errors.c', 'error.c: imb_set_errno/imb_get_errno laws (per-manager code independent of other managers; global mirror store-if-different)', 60)
    # 4. a second manager is untouched by any ring entry point (CBMC, arbitrary byte of the other manager)
    from props import ring
    ring.run_entries(ctx, [1, 3] if quick else [1, 2, 3, 4, 7, 9], ['sse_t1'], witness_for=(3,), other=True)
    ctx.samples.append('every C unit rebuilt with the repo flags: symbols in writable allocated sections = {imb_errno, cpuid_1_0, cpuid_7_0, cpuid_7_1, counter}')
    ctx.extra['known_observation'] = ('several failure paths call imb_set_errno(NULL, code) after zeroing the manager code (submit_hash_burst NULL jobs, imb_hmac_ipad_opad): '
                                      'the code is then visible only through the process-wide mirror; see DESIGN.md §6 lead 3')


if __name__ == '__main__':
    main_wrapper(PROP, run)
