"""C05 — jobs come back exactly once, in order, complete; queue accounting exact."""
from vlib.core import *
from props import ring

PROP = 'C05'


def run(ctx):
    ring.run_arith(ctx)
    archs = ['sse_t1'] if ctx.quick() else ['sse_t1', 'avx2_t1', 'avx512_t1']
    ring.run_entries(ctx, list(ring.ENTRIES), archs, timeout=1500 if ctx.quick() else 3600)
    from props import l1
    l1.run_k1(ctx)
    ctx.samples.append('step laws compose: returned job is always the oldest in-window job with status>=COMPLETED => exactly once, in submission order')


if __name__ == '__main__':
    main_wrapper(PROP, run)
