"""C05 — jobs come back exactly once, in order, complete; queue accounting exact."""
from vlib.core import *
from props import ring

PROP = 'C05'


def run(ctx):
    ring.run_arith(ctx)
    if ctx.quick():
        ring.run_entries(ctx, list(ring.ENTRIES), ['sse_t1'], timeout=1500)
    else:
        # thorough: the second architecture instantiation of the same headers at the quick bound (2-job bursts, 4-slot ring).  Bursts of 4 on an
        # 8-slot ring for three architectures did not finish within 50 minutes on 16 cores and are not part of either tier.
        ring.run_entries(ctx, list(ring.ENTRIES), ['sse_t1', 'avx512_t1'], timeout=3600, burst=2)
    from props import l1
    l1.run_k1(ctx)
    ctx.samples.append('step laws compose: returned job is always the oldest in-window job with status>=COMPLETED => exactly once, in submission order')


if __name__ == '__main__':
    main_wrapper(PROP, run)
