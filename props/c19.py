"""C19 — SAFE_LOOKUP: no key-dependent branches or addresses in DES/3DES/DOCSIS-DES, KASUMI and SNOW3G."""
import os, time
from multiprocessing import Pool
from vlib.core import *
from vlib.core import run as sh

PROP = 'C19'

# (C unit, function, args) ; key material regions are secret; message data, IV, lengths, pointers are public
DES_KS = ('ptr', 'ks', 128, True, False)
UNITS = [
    ('x86_64/des_basic.c', 'des_enc_cbc_basic', [('ptr', 'in', 16, False, False), ('ptr', 'out', 16, False, True), ('val', 16), DES_KS, ('ptr', 'iv', 8, False, False)]),
    ('x86_64/des_basic.c', 'des_dec_cbc_basic', [('ptr', 'in', 16, False, False), ('ptr', 'out', 16, False, True), ('val', 16), DES_KS, ('ptr', 'iv', 8, False, False)]),
    ('x86_64/des_basic.c', 'des3_enc_cbc_basic', [('ptr', 'in', 16, False, False), ('ptr', 'out', 16, False, True), ('val', 16), ('ptr', 'ks1', 128, True, False), ('ptr', 'ks2', 128, True, False), ('ptr', 'ks3', 128, True, False)]),
    ('x86_64/des_basic.c', 'des3_dec_cbc_basic', [('ptr', 'in', 16, False, False), ('ptr', 'out', 16, False, True), ('val', 16), ('ptr', 'ks1', 128, True, False), ('ptr', 'ks2', 128, True, False), ('ptr', 'ks3', 128, True, False)]),
    ('x86_64/des_basic.c', 'docsis_des_enc_basic', [('ptr', 'in', 13, False, False), ('ptr', 'out', 13, False, True), ('val', 13), DES_KS, ('ptr', 'iv', 8, False, False)]),
    ('x86_64/des_basic.c', 'docsis_des_dec_basic', [('ptr', 'in', 13, False, False), ('ptr', 'out', 13, False, True), ('val', 13), DES_KS, ('ptr', 'iv', 8, False, False)]),
    ('x86_64/des_basic.c', 'des_cfb_one', [('ptr', 'out', 5, False, True), ('ptr', 'in', 5, False, False), ('ptr', 'iv', 8, False, False), DES_KS, ('val', 5)]),
]
KAS = ('ptr', 'ks', 256, True, False)        # kasumi_key_sched_t: sk16[64] + msk16[64]
SNW = ('ptr', 'ks', 16, True, False)         # snow3g_key_schedule_t: k[4]
SNOW_C = ['x86_64/snow3g_tables.c']


def buf(n, i=''):
    return [('ptr', 'in%s' % i, n, False, False), ('ptr', 'out%s' % i, n, False, True)]


# (C unit, function, args, extra C units, extra asm units)
UNITS2 = []
for arch, d, ua in (('sse', 'sse_t1', 'sse'), ('avx2', 'avx2_t1', 'avx')):
    ku, su = '%s/kasumi_%s.c' % (d, arch), '%s/snow3g_%s.c' % (d, arch)
    uia2 = ['%s/snow3g_uia2_by4_%s.asm' % (d, ua)]
    UNITS2 += [] if arch != 'sse' else [
        (ku, 'kasumi_init_f8_key_sched_' + arch, [('ptr', 'key', 16, True, False), ('ptr', 'ks', 256, False, True)], [], []),
        (ku, 'kasumi_init_f9_key_sched_' + arch, [('ptr', 'key', 16, True, False), ('ptr', 'ks', 256, False, True)], [], []),
        (ku, 'kasumi_f8_1_buffer_' + arch, [KAS, ('sym', 'iv', False)] + buf(16) + [('val', 16)], [], []),
        (ku, 'kasumi_f9_1_buffer_' + arch, [KAS, ('ptr', 'in', 16, False, False), ('val', 16), ('ptr', 'out', 4, False, True)], [], []),
    ]
    UNITS2 += [
        (su, 'snow3g_init_key_sched_' + arch, [('ptr', 'key', 16, True, False), ('ptr', 'ks', 16, False, True)], SNOW_C, []),
        (su, 'snow3g_f8_1_buffer_' + arch, [SNW, ('ptr', 'iv', 16, False, False)] + buf(19) + [('val', 19)], SNOW_C, []),
        (su, 'snow3g_f8_1_buffer_bit_' + arch, [SNW, ('ptr', 'iv', 16, False, False)] + buf(16) + [('val', 75), ('val', 3)], SNOW_C, []),
        (su, 'snow3g_f8_4_buffer_' + arch, [SNW] + [('ptr', 'iv%d' % i, 16, False, False) for i in range(4)]
         + sum([buf(16 + 3 * i, i) + [('val', 16 + 3 * i)] for i in range(4)], []), SNOW_C, []),
        (su, 'snow3g_f9_1_buffer_' + arch, [SNW, ('ptr', 'iv', 16, False, False), ('ptr', 'in', 16, False, False), ('val', 128), ('ptr', 'out', 4, False, True)], SNOW_C, uia2),
    ]
ASM_LOOKUPS = [('lookup_8bit_sse', 256), ('lookup_8bit_avx', 256), ('lookup_16bit_sse', 256), ('lookup_16bit_avx', 256), ('lookup_32bit_sse', 64), ('lookup_32bit_avx', 64),
               ('lookup_64bit_sse', 64), ('lookup_64bit_avx', 64)]
SUPPORT_ASM = ['x86_64/constant_lookup_fns.asm', 'sse_t1/memcpy_sse.asm', 'x86_64/clear_regs_mem_fns.asm', 'x86_64/const.asm']


def _task(a):
    import traceback
    kind, unit, sym, args, safe = a[:5]
    xc, xa = (a[5], a[6]) if len(a) > 5 else ([], [])
    from vlib.core import Ctx
    from vlib.asmx.decode import Obj
    from vlib.asmx import ct
    c = Ctx('asmx_worker', 'quick', 0)
    try:
        objs = []
        if kind == 'c':
            extra = [] if safe else ['-USAFE_LOOKUP']
            objs.append(cc(c, unit, out=os.path.join(c.scratch, 'u.o'), extra=extra))
            for i, u in enumerate(xc):
                objs.append(cc(c, u, out=os.path.join(c.scratch, 'x%d.o' % i)))
        for s in SUPPORT_ASM + list(xa):
            if os.path.exists(os.path.join(LIB, s)):
                objs.append(nasm(c, s))
        out = os.path.join(c.scratch, 'ct.o')
        link_reloc(c, objs, out)
        r = ct.run(Obj(out), sym, args)
        r['src'] = dict(c.functions)
        r['unit'] = unit
        r['safe'] = safe
        return r
    except Exception as e:
        return dict(name=sym, result='inconclusive', detail='worker error: ' + traceback.format_exc()[-400:], unit=unit, safe=safe, src={}, leaks=[], steps=0, paths=0)
    finally:
        c.cleanup()


def run(ctx):
    tasks = []
    for unit, sym, args in UNITS:
        tasks.append(('c', unit, sym, args, True))
    for unit, sym, args, xc, xa in UNITS2:
        tasks.append(('c', unit, sym, args, True, xc, xa))
    for sym, n in ASM_LOOKUPS:
        tasks.append(('asm', 'x86_64/constant_lookup_fns.asm', sym, [('ptr', 'table', 2048, False, False), ('sym', 'idx', True), ('val', n)], True))
    # must-fail twin: the same DES unit compiled WITHOUT SAFE_LOOKUP indexes its S-boxes with key-dependent values
    tasks.append(('c', 'x86_64/des_basic.c', 'des_enc_cbc_basic', UNITS[0][2], False))
    for u in UNITS2:
        if u[1] in ('kasumi_f8_1_buffer_sse', 'snow3g_f8_1_buffer_sse', 'snow3g_f8_4_buffer_sse'):
            tasks.append(('c', u[0], u[1], u[2], False, u[3], u[4]))
    tasks.sort(key=lambda t: 0 if 'kasumi_f' in t[2] else 1)     # longest first
    ctx.bounds.update({'units': 'compiled objects (gcc, repo flags) of des_basic.c, kasumi_sse.c, snow3g_sse.c, snow3g_avx2.c (+ snow3g_tables.c, snow3g_uia2_by4_{sse,avx}.asm) linked with constant_lookup_fns.asm; lookup_{8,16,32,64}bit_{sse,avx}',
                       'message': '2 DES blocks (CBC), 13 bytes (DOCSIS, residue path), 5 bytes (CFB-one); KASUMI F8/F9 16 bytes; SNOW3G F8 19 bytes, 75 bits at offset 3, 4 buffers of 16..25 bytes, F9 128 bits: the per-block code is the same', 'loop_bound': 2,
                       'secret': 'every byte of the key schedule(s) / the key; the table index of the lookup primitives'})
    ctx.assume('sweep mode with taint inheritance: an instruction without exact semantics havocs its destination, which inherits the secret tag of any source operand; '
               'both directions of every non-constant branch are followed; a leak is a branch condition or an effective address whose term carries the secret tag')
    ctx.assume('message data, IV, lengths and pointers are public (the property is about the key)')
    ctx.outside.append('kasumi_f8_1_buffer_bit (its tail switch is a jump table the sweep does not resolve); KASUMI/SNOW3G n-buffer and 8-buffer entry points and the SNOW3G AVX-512 unit; the multi-buffer SNOW3G job managers (asm); AVX-512 DES (not in the property); micro-architectural channels; paths cut at the loop bound')
    t0 = time.time()
    with Pool(min(NCPU, len(tasks))) as pool:
        for r in pool.imap_unordered(_task, tasks):
            ctx.functions.update(r.get('src', {}))
            nm = 'C19 %s (%s)%s: no secret-dependent branch or address on %d explored paths, %d instructions' % (r['name'], r.get('unit'), '' if r.get('safe', True) else ' WITHOUT SAFE_LOOKUP', r.get('paths', 0), r.get('steps', 0))
            if not r.get('safe', True):
                ctx.add('WITNESS %s compiled without SAFE_LOOKUP has key-dependent table addresses (must be reported)' % r['name'], 'violated' if r['result'] == 'violated' else 'discharged',
                        r.get('secs', 0), 'asmx', str(r.get('leaks'))[:200], expect='violated')
                continue
            if r['result'] == 'held':
                ctx.add(nm, 'discharged', r.get('secs', 0), 'asmx', '')
            elif r['result'] == 'violated':
                ctx.add(nm, 'violated', r.get('secs', 0), 'asmx', str(r['leaks'])[:300])
                for (kind, addr), text in r['leaks'][:4]:
                    ctx.violation('%s:%s:%x' % (r['name'], kind, addr), 'key-dependent %s in %s at .text+%x: %s (replay: vlib/asmx/ct.py run() on the unit rebuilt with the repo flags prints the tainted term)' % (
                        kind, r['name'], addr, text))
            else:
                ctx.add(nm, 'inconclusive', r.get('secs', 0), 'asmx', r.get('detail', ''))
    ctx.samples.append('des3_enc_cbc_basic(gcc -O2 object): key schedules ks1..3 secret; every conditional branch and every load/store address on all explored paths is free of key-derived terms')


if __name__ == '__main__':
    main_wrapper(PROP, run)
