"""Shared runner for cbmc/reset.c (C15 reset image, C16 no-reset re-binding)."""
import os, re
from vlib.core import *
from vlib.core import run as sh
from props.ring import ARCH_FILES
from tools.trace_summary import summarise


def table_entries():
    txt = open(os.path.join(LIB, 'x86_64', 'alloc.c')).read()
    return re.findall(r'OOO_INFO\((\w+),\s*(\w+)\)', txt)[1:] if False else [m for m in re.findall(r'OOO_INFO\((\w+),\s*(\w+)\)', txt) if m[0] != 'imb_mgr_ooo_ptr_name__']


def used_fields(ctx, arch):
    """OOO pointer fields the variant's translation unit refers to outside reset_ooo_mgrs() (preprocessed source)."""
    rc, o, _, _ = sh(['gcc', '-E', '-P'] + C_DEFS + INCS + C_ARCH.get(arch, []) + [os.path.join(LIB, ARCH_FILES[arch])], timeout=300)
    if rc != 0:
        raise Inconclusive('gcc -E failed for ' + arch)
    o = re.sub(r'reset_ooo_mgrs\s*\(\s*IMB_MGR\s*\*\s*state\s*\)\s*\{.*?\n\}', '', o, flags=re.S)
    return set(re.findall(r'->\s*(\w+_ooo)\b', o))


def run_reset(ctx, archs, noreset=False, parallel=12):
    ents = table_entries()
    ctx.note_source('lib/x86_64/alloc.c')
    ctx.note_source('lib/x86_64/ooo_mgr_reset.c')
    # supporting fact: ooo_mgr_table[] covers every *_ooo pointer field of IMB_MGR
    hdr = open(os.path.join(LIB, 'intel-ipsec-mb.h')).read()
    body = hdr[hdr.index('typedef struct IMB_MGR {'):hdr.index('} IMB_MGR;')]
    fields = set(re.findall(r'\*\s*(\w+_ooo)\s*;', body)) - {'end_ooo'}  # end_ooo is the documented end marker, not a manager
    miss = fields - set(e[0] for e in ents)
    ctx.extra['ooo_fields_in_IMB_MGR'] = len(fields)
    ctx.extra['ooo_mgr_table_entries'] = len(ents)
    if miss:
        ctx.violation('ooo_mgr_table-missing:' + ','.join(sorted(miss)), 'IMB_MGR fields %s have no entry in ooo_mgr_table[] (never allocated/re-attached)' % sorted(miss))
    h = os.path.join(VERIF, 'cbmc', 'reset.c')
    work = []
    bases = {}
    for a in archs:
        gb = os.path.join(ctx.scratch, 'reset_%s%s.gb' % (a, '_nr' if noreset else ''))
        gotocc(ctx, h, gb, defs=['-DARCH_FILE="%s"' % ARCH_FILES[a], '-DINIT_FN=init_mb_mgr_%s_internal' % a] + (['-DNORESET'] if noreset else []), arch=a)
        ctx.note_source('lib/' + ARCH_FILES[a])
        bases[a] = gb
        used = used_fields(ctx, a)
        skipped = []
        for i, (f, t) in enumerate(ents):
            if f in used:
                work.append((a, i, f, t, False))
            else:
                skipped.append(f)
        ctx.extra.setdefault('managers_not_referenced_by_variant', {})[a] = skipped
    gbw = os.path.join(ctx.scratch, 'reset_w.gb')
    gotocc(ctx, h, gbw, defs=['-DARCH_FILE="%s"' % ARCH_FILES[archs[0]], '-DINIT_FN=init_mb_mgr_%s_internal' % archs[0], '-DWITNESS'] + (['-DNORESET'] if noreset else []), arch=archs[0])
    bases['w'] = gbw
    work.append((archs[0], 0, ents[0][0], ents[0][1], True))

    def one(w):
        a, i, f, t, wit = w
        c = os.path.join(ctx.scratch, 'ci_%s_%d_%d.c' % (a, i, wit))
        open(c, 'w').write('const int cfg_idx=%d;\n' % i)
        q = os.path.join(ctx.scratch, 'rq_%s_%d_%d.gb' % (a, i, wit))
        rc, o, _, _ = sh(['goto-cc', bases['w' if wit else a], c, '-o', q], timeout=120)
        if rc != 0:
            raise Inconclusive('link failed ' + o[-300:])
        what = ('re-bind without reset leaves %s bytes, ring and lanes untouched' if noreset else 'reset image of %s independent of the pre-state (arbitrary vs zero-filled), ring emptied') % f
        nm = '%s%s [%s]' % ('WITNESS ' if wit else '', what, a)
        # deep recursion inside cbmc on the memset models: run with an unlimited stack
        cmd = 'ulimit -s unlimited; exec cbmc %s %s --unwind 45 --slice-formula %s' % (q, ' '.join(CBMC_FLAGS), '' if wit else '--trace')
        rcc, out, secs, to = sh(['sh', '-c', cmd], timeout=1800)
        log = q + '.log'
        open(log, 'w').write(out)
        os.unlink(q)
        fails = RE_FAIL.findall(out)
        if to:
            res, det = 'inconclusive', 'timeout'
        elif 'VERIFICATION SUCCESSFUL' in out:
            res, det = 'discharged', ''
        elif 'VERIFICATION FAILED' in out:
            res, det = 'violated', '; '.join('%s %s' % x for x in fails[:4])
            if fails and all('unwinding' in x[1] for x in fails):
                res = 'inconclusive'
        else:
            res, det = 'inconclusive', out[-300:].replace('\n', ' | ')
        ctx.add(nm, res, secs, 'cbmc', det, expect='violated' if wit else 'discharged')
        return w, res, fails, log

    for r in pool_map(one, work, workers=parallel):
        if isinstance(r, Exception):
            ctx.inconclusive.append(str(r))
            continue
        (a, i, f, t, wit), res, fails, log = r
        if wit or res != 'violated':
            continue
        for fid, desc in fails[:3]:
            ctx.violation('%s:%s:%s' % ('norebind' if noreset else 'reset', a, f), '%s [%s]: %s %s (the CBMC trace over the real %s + ooo_mgr_reset.c is the replay)' % (
                f, a, fid, desc, ARCH_FILES[a]), [log, h])
