"""C07 (asmx precise harnesses; see DESIGN.md §4 C07)."""
from vlib.core import *
from props import asm_units

PROP = 'C07'


def run(ctx):
    asm_units.run_all(ctx, PROP)


if __name__ == '__main__':
    main_wrapper(PROP, run)
