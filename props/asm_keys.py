"""Precise asmx harnesses for the key-preparation helpers in assembly: AES key expansion (all keys, FIPS-197 over an uninterpreted
SubWord) for every variant entry point, and CMAC sub-key generation (exact GF(2^128) doubling).  Serves C11, C07, C13, C08."""
import os, time
from z3 import (BitVec, BitVecVal, And, Or, Not, If, Extract, Concat, ZeroExt, simplify, sat, unsat, is_bv_value, LShR, is_false)
from vlib.core import *
from vlib.asmx.engine import (Engine, State, Region, bv, simp, conc, Unsupported, BoundExceeded, AESENC, AESENCLAST, AESIMC, SBOX32, RET_SENTINEL, ackermannize, xor_normal_form, NotLinear)
from vlib.asmx.decode import Obj

KEY, ENC, DEC, STK = 0x300000, 0x340000, 0x380000, 0x700000


def rd(reg, off, n):
    return simplify(Concat(*reversed([reg.get(off + i) for i in range(n)]))) if n > 1 else reg.get(off)


def ror8(x):
    return Concat(Extract(7, 0, x), Extract(31, 8, x))


def fips197_schedule(keywords, nk, nr):
    """key expansion on little-endian dwords as the x86 instructions see them; SubWord is the uninterpreted SBOX32"""
    rcon = [0x01, 0x02, 0x04, 0x08, 0x10, 0x20, 0x40, 0x80, 0x1b, 0x36]
    w = list(keywords)
    for i in range(nk, 4 * (nr + 1)):
        t = w[i - 1]
        if i % nk == 0:
            t = ror8(SBOX32(t)) ^ BitVecVal(rcon[i // nk - 1], 32)
        elif nk > 6 and i % nk == 4:
            t = SBOX32(t)
        w.append(simplify(w[i - nk] ^ t))
    return [simplify(Concat(w[4 * r + 3], w[4 * r + 2], w[4 * r + 1], w[4 * r])) for r in range(nr + 1)]


def setup(obj, regions, args):
    st = State()
    stk = Region('stack', STK, 4096)
    ro = Region('rodata', obj.RODATA_BASE, max(1, len(obj.rodata)), False, obj.rodata)
    tx = Region('text', obj.TEXT_BASE, max(1, len(obj.text_bytes)), False, obj.text_bytes)
    st.regions = list(regions) + [stk, ro, tx]
    for s_, (sec, val, typ, bind, size) in obj.syms.items():
        if sec == '*UND*' and s_ in ('imb_errno', 'imb_errno_types'):
            st.regions.append(Region(s_, obj.ext_address(s_), 4 if s_ == 'imb_errno' else 256, writable=(s_ == 'imb_errno')))
    rsp0 = STK + 4096 - 8 - 256
    st.r[4] = bv(rsp0, 64)
    for i in range(8):
        stk.bytes[rsp0 - STK + i] = BitVecVal((RET_SENTINEL >> (8 * i)) & 0xff, 8)
    for r, a in zip([7, 6, 2, 1, 8, 9], args):
        st.r[r] = bv(a, 64)
    return st, rsp0


def residue(f, rsp0, names):
    leaks = []
    def t(term):
        if is_bv_value(term):
            return False
        s = term.sexpr()
        return any(n in s for n in names)
    for i in range(32):
        if t(f.v[i]):
            leaks.append('zmm%d' % i)
    for i in (0, 1, 2, 6, 7, 8, 9, 10, 11):
        if t(f.r[i]):
            leaks.append('gpr%d' % i)
    sr = f.region('stack')
    for o in sorted(sr.written):
        if o < rsp0 - STK and t(sr.get(o)):
            leaks.append('stack%+d' % (o - (rsp0 - STK)))
            break
    return leaks


def run_keyexp(ctx, bits, variant, enc_only=False, safe_data=True, sabotage=False):
    nk, nr = {128: (4, 10), 192: (6, 12), 256: (8, 14)}[bits]
    sym = 'aes_keyexp_%d_%s%s' % (bits, 'enc_' if enc_only else '', variant)
    drop = () if safe_data else ('-DSAFE_DATA',)
    from vlib.asmx.link import link_units
    out = os.path.join(ctx.scratch, 'kx_%s%s.o' % (sym, '' if safe_data else '_ns'))
    link_units(ctx, ['x86_64/aes_keyexp_%d.asm' % bits, 'x86_64/const.asm'], out, drop=drop)
    obj = Obj(out)
    rk = Region('key', KEY, bits // 8, writable=False)
    re_ = Region('enc', ENC, 16 * (nr + 1))
    rdd = Region('dec', DEC, 16 * (nr + 1))
    st, rsp0 = setup(obj, [rk, re_] + ([] if enc_only else [rdd]), [KEY, ENC] + ([] if enc_only else [DEC]))
    E = Engine(obj, mode='precise', max_steps=20000, loop_bound=20, solver_timeout_ms=300000)
    name = sym
    obl, viol = [], []
    t0 = time.time()
    try:
        fin = E.run(st, sym)
    except (Unsupported, BoundExceeded) as e:
        return [(name, None, 'inconclusive: ' + str(e)[:200], 0)], [], dict(ctx.functions), 0
    kw = [rd(rk, 4 * i, 4) for i in range(nk)]
    ek = fips197_schedule(kw, nk, nr)
    if sabotage:
        ek[3] = simplify(ek[3] ^ 1)
    for f in fin:
        R = {r.name: r for r in f.regions}
        pairs = [(rd(R['enc'], 16 * r, 16), ek[r]) for r in range(nr + 1)]
        if not enc_only:
            pairs.append((rd(R['dec'], 0, 16), ek[nr]))
            pairs.append((rd(R['dec'], 16 * nr, 16), ek[0]))
            for r in range(1, nr):
                pairs.append((rd(R['dec'], 16 * r, 16), AESIMC(ek[nr - r])))
        # Ackermann abstraction of SubWord/InvMixColumns: what remains is XOR/shift algebra, decided instantly
        # exact XOR/UF normal form first (decides the whole obligation without the solver when it applies)
        try:
            nf = xor_normal_form([x for p in pairs for x in p])
            if all(nf[2 * i] == nf[2 * i + 1] for i in range(len(pairs))):
                pairs = []
        except (NotLinear, RecursionError):
            pass
        flat = ackermannize([x for p in pairs for x in p])
        verdict = unsat
        for i, (g, e_) in enumerate(pairs):
            ag, ae = flat[2 * i], flat[2 * i + 1]
            b = simplify(ag != ae)
            if is_false(b):
                continue
            r_, m = E.check(f, b)
            if r_ == unsat:
                continue
            # abstraction inconclusive: exact query
            r_, m = E.check(f, g != e_)
            if r_ == sat:
                verdict = sat
                break
            if r_ != unsat:
                verdict = r_
        r_ = verdict
        obl.append((name + ' C11 expanded keys == FIPS-197 schedule over uninterpreted SubWord for ALL keys%s' % ('' if enc_only else '; decrypt schedule == InvMixColumns of the reversed encrypt schedule'),
                    True if r_ == unsat else (False if r_ == sat else None), str(r_), time.time() - t0))
        if r_ == sat:
            viol.append(('C11:%s' % name, 'key schedule differs from FIPS-197 for some key'))
        ok = not f.faults
        obl.append((name + ' C07 accesses inside the %d-byte key and the %d-byte schedules' % (bits // 8, 16 * (nr + 1)), ok, str(f.faults[:2]), 0))
        if not ok:
            viol.append(('C07:%s' % name, 'access outside caller objects: %s' % (f.faults[:2],)))
        lk = residue(f, rsp0, ('key_',))
        obl.append((name + ' C13 no key-dependent term left in vector registers, caller-saved GPRs or the stack frame', not lk, ','.join(lk[:8]), 0))
        if lk:
            viol.append(('C13:%s' % name, 'key-dependent residue after return in %s' % ','.join(lk[:8])))
    return obl, viol, dict(ctx.functions), E.insn_count


def gf_double(x):
    """doubling in GF(2^128) on the big-endian interpretation of a 16-byte string held little-endian in x"""
    b = [Extract(8 * k + 7, 8 * k, x) for k in range(16)]      # b[0] first byte in memory = most significant
    be = Concat(*b)                                            # big-endian integer
    sh = be << 1
    red = If(Extract(127, 127, be) == 1, BitVecVal(0x87, 128), BitVecVal(0, 128))
    r = sh ^ red
    rb = [Extract(127 - 8 * k, 120 - 8 * k, r) for k in range(16)]
    return Concat(*reversed(rb))


def run_cmac_subkey(ctx, bits, variant):
    nr = {128: 10, 256: 14}[bits]
    sym = 'aes_cmac_%ssubkey_gen_%s' % ('256_' if bits == 256 else '', variant)
    from vlib.asmx.link import link_units
    out = os.path.join(ctx.scratch, 'cs_%s.o' % sym)
    link_units(ctx, ['x86_64/aes_cmac_subkey_gen.asm', 'x86_64/const.asm'], out)
    obj = Obj(out)
    rk = Region('keys', KEY, 16 * (nr + 1), writable=False)
    k1 = Region('k1', ENC, 16)
    k2 = Region('k2', DEC, 16)
    st, rsp0 = setup(obj, [rk, k1, k2], [KEY, ENC, DEC])
    E = Engine(obj, mode='precise', max_steps=20000, loop_bound=20, solver_timeout_ms=300000)
    obl, viol = [], []
    t0 = time.time()
    try:
        fin = E.run(st, sym)
    except (Unsupported, BoundExceeded) as e:
        return [(sym, None, 'inconclusive: ' + str(e)[:200], 0)], [], dict(ctx.functions), 0
    ks = [rd(rk, 16 * i, 16) for i in range(nr + 1)]
    x = BitVecVal(0, 128) ^ ks[0]
    for i in range(1, nr):
        x = AESENC(x, ks[i])
    L = AESENCLAST(x, ks[nr])
    K1 = gf_double(L)
    K2 = gf_double(K1)
    for f in fin:
        R = {r.name: r for r in f.regions}
        r_, m = E.check(f, Or(rd(R['k1'], 0, 16) != K1, rd(R['k2'], 0, 16) != K2))
        obl.append((sym + ' C11 K1 = dbl(E_k(0)), K2 = dbl(K1) in GF(2^128) (RFC 4493) for ALL keys', True if r_ == unsat else (False if r_ == sat else None), str(r_), time.time() - t0))
        if r_ == sat:
            viol.append(('C11:%s' % sym, 'CMAC sub-keys differ from RFC 4493'))
        ok = not f.faults
        obl.append((sym + ' C07 accesses inside the key schedule and the two 16-byte outputs', ok, str(f.faults[:2]), 0))
        if not ok:
            viol.append(('C07:%s' % sym, 'access outside caller objects: %s' % (f.faults[:2],)))
        lk = residue(f, rsp0, ('keys_',))
        # the sub-keys themselves are outputs; E_k(0) (L) is derived key material and must not stay behind
        obl.append((sym + ' C13 no key-schedule-dependent term left in vector registers, caller-saved GPRs or the stack frame', not lk, ','.join(lk[:8]), 0))
        if lk:
            viol.append(('C13:%s' % sym, 'key-dependent residue after return in %s' % ','.join(lk[:8])))
    return obl, viol, dict(ctx.functions), E.insn_count


def _task(a):
    from vlib.core import Ctx
    c = Ctx('asmx_worker', 'quick', 0)
    try:
        if a[0] == 'keyexp':
            r = run_keyexp(c, a[1], a[2], a[3], a[4], a[5])
        else:
            r = run_cmac_subkey(c, a[1], a[2])
        return r + (a,)
    except Exception as e:
        import traceback
        return ([('%s' % (a,), None, 'engine error: ' + traceback.format_exc()[-300:], 0)], [], {}, 0, a)
    finally:
        c.cleanup()


def run_family(ctx, prop):
    from multiprocessing import Pool
    quick = ctx.quick()
    variants = ['sse', 'avx', 'avx2', 'avx512']
    tasks = []
    for bits in (128, 192, 256):
        for v in variants:
            tasks.append(('keyexp', bits, v, False, True, False))
            tasks.append(('keyexp', bits, v, True, True, False))
    for bits in (128, 256):
        for v in variants:
            tasks.append(('cmac', bits, v))
    if prop == 'C11':
        tasks.append(('keyexp', 128, 'sse', False, True, True))       # sabotaged oracle must fail
    if prop == 'C13':
        tasks.append(('keyexp', 128, 'sse', False, False, False))     # non-SAFE_DATA twin must leak
    ctx.bounds['key_helpers_asm'] = 'aes_keyexp_{128,192,256}[_enc]_{sse,avx,avx2,avx512}, aes_cmac[_256]_subkey_gen_{sse,avx,avx2,avx512}: every key (fully symbolic), exact-size objects'
    ctx.assume('AESKEYGENASSIST is encoded over an uninterpreted 32-bit SubWord, AESIMC and AESENC/AESENCLAST are uninterpreted; GF(2^128) doubling is exact')
    steps = 0
    with Pool(min(NCPU, len(tasks))) as pool:
        for obl, viol, src, n, a in pool.imap_unordered(_task, tasks):
            ctx.functions.update(src)
            steps += n
            sab = a[0] == 'keyexp' and a[5]
            nosafe = a[0] == 'keyexp' and not a[4]
            if sab or nosafe:
                got = any(k.startswith(prop) for k, t in viol)
                ctx.add('WITNESS %s on aes_keyexp_128_sse must be reported' % ('sabotaged reference' if sab else 'build without -DSAFE_DATA'), 'violated' if got else 'discharged', 0, 'asmx', '', expect='violated')
                continue
            for name, ok, detail, secs in obl:
                if prop not in name and ok is not None:
                    continue
                ctx.add(name, 'discharged' if ok else ('inconclusive' if ok is None else 'violated'), secs, 'asmx', detail)
            for key, text in viol:
                if key.startswith(prop):
                    ctx.violation(key, text + ' (replay: props/asm_keys.py %s)' % (a,))
    ctx.extra.setdefault('asmx', {})['key_helper_instructions_executed_symbolically'] = steps
