"""C20 — the power-up self-test gates initialisation for every tested algorithm."""
from vlib.core import *

PROP = 'C20'


def run(ctx):
    for f in ('lib/x86_64/self_test.c', 'lib/sse_t1/mb_mgr_sse.c', 'lib/avx2_t1/mb_mgr_avx2.c', 'lib/avx512_t1/mb_mgr_avx512.c', 'lib/x86_64/mb_mgr_auto.c'):
        ctx.note_source(f)
    ctx.bounds.update({'corruption': 'ANY subset of the known-answer tests corrupted (symbolic mask over all tests) in one query; single-fault twin',
                       'cbmc_unwind': 66, 'cpu': 'arbitrary CPUID feature word, arbitrary prior manager contents'})
    ctx.assume('job/direct API function pointers are stubs modelling correct, injective crypto: a known-answer memcmp matches iff the test input was not corrupted '
               '(that each KAT detects a given kernel defect is the kernels\' own correctness, C01-C03)')
    ctx.assume('memcpy/memset are no-op stubs; des_key_schedule, imb_hmac_ipad_opad are empty stubs')
    jobs = [('selftest.c', 'self_test.c: FAIL for exactly the corrupted KATs, PASS for the rest, pass bit/return value <=> none corrupted, every KAT offers the corruption hook, documented groups', 66, []),
            ('selftest.c', 'self_test.c: single corrupted algorithm => exactly one FAIL, pass bit cleared', 66, ['-DSINGLE_FAULT'])]
    for w in (1, 2, 3, 4):
        jobs.append(('initgate.c', 'init_mb_mgr_%s: self-test runs exactly once after variant binding; errno/pass bit follow its verdict' % ['', 'sse', 'avx2', 'avx512', 'auto'][w], 30, ['-DWHICH=%d' % w]))
    res = pool_map(lambda j: simple_cbmc(ctx, j[0], j[1], j[2], defs=j[3], witness=(j[3] != ['-DSINGLE_FAULT']), timeout=1200), jobs)
    for r in res:
        if isinstance(r, Exception):
            ctx.inconclusive.append(str(r))
    ctx.samples.append('corrupt[] = any subset of the 40 KATs: self_test() returns 1 and sets IMB_FEATURE_SELF_TEST_PASS iff the subset is empty; FAIL events exactly on the subset')
    ctx.outside.append('that each known-answer test detects a given kernel defect (C01-C03)')


if __name__ == '__main__':
    main_wrapper(PROP, run)
