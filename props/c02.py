"""C02 — digest/MAC output equals the published algorithm (this session: the C multi-buffer SHA manager; see DESIGN for the rest)."""
import os
from vlib.core import *
from vlib.core import run as sh

PROP = 'C02'


def _poly_job(q):
    from props import asm_poly
    from vlib.core import Ctx
    c = Ctx('asmx_worker', 'quick', 0)
    out = {}
    try:
        out['res'] = asm_poly.run_step(c)
        out['src'] = dict(c.functions)
    except Exception as e:
        import traceback
        out['res'] = ([('poly1305_aead_update_scalar block step', None, 'engine error: ' + traceback.format_exc()[-300:], 0)], [])
        out['src'] = {}
    finally:
        c.cleanup()
    q.put(out)


def run(ctx):
    quick = ctx.quick()
    # scalar Poly1305 block step (two lemmas, ~2.5 min of z3 on one core): started first, collected at the end
    # (a separate PROCESS forked before any thread or pool exists: forking a pool while a thread sits inside z3 deadlocks the children)
    import multiprocessing
    pq = multiprocessing.Queue()
    pt = multiprocessing.Process(target=_poly_job, args=(pq,))
    pt.start()
    from props import asm_hmac
    asm_hmac.run_family(ctx, 'C02')       # HMAC managers (machine code) first: seconds
    from props import asm_cmac
    asm_cmac.run_family(ctx, 'C02')       # AES-CMAC managers with their real CBC-MAC kernels
    from props import asm_sm3
    asm_sm3.run_family(ctx, 'C02')        # SM3 / HMAC-SM3 job routines, every tag length
    for f in ('lib/include/sha_mb_mgr.h', 'lib/sse_t1/sha_mb_sse.c', 'lib/x86_64/ooo_mgr_reset.c'):
        ctx.note_source(f)
    small = {1: [0, 1, 55, 56, 64, 119], 224: [0, 55, 56, 64], 256: [0, 1, 55, 56, 64, 119], 384: [0, 111, 112, 128], 512: [0, 1, 111, 112, 128]}
    if not quick:
        small = {1: list(range(0, 131, 5)) + [55, 56, 63, 64, 119, 120, 127, 128], 224: [0, 1, 54, 55, 56, 57, 63, 64, 65, 119, 120, 128],
                 256: list(range(0, 131, 5)) + [55, 56, 63, 64, 119, 120, 127, 128], 384: [0, 1, 110, 111, 112, 113, 127, 128, 129, 239, 240],
                 512: [0, 1, 55, 110, 111, 112, 113, 127, 128, 129, 200, 239, 240, 256]}
    ctx.bounds.update({'unit': 'submit_flush_job_sha_{1,256,512} of sha_mb_mgr.h as instantiated for SHA-1/224/256/384/512 by sha_mb_sse.c (4 / 2 lanes)',
                       'lengths': {str(k): sorted(set(v)) for k, v in small.items()}, 'data': 'every message byte symbolic', 'cbmc_unwind': '420 (more where the longest listed message needs it: longest + 2 blocks + 11)'})
    ctx.assume('the multi-buffer block function is a per-lane compression over an uninterpreted function that advances data_ptr (what the SIMD rounds compute is outside solver reach); '
               'the reference is Merkle-Damgard padding folded with the same function')
    ctx.assume('message lengths are case-split, one query each (a symbolic length in one query does not finish: probe in DESIGN §4 C02)')
    ctx.outside += ['HMAC managers of the SHA-NI variants (sse_t2, avx2_t4) and HMAC-SM3; CMAC/XCBC/CCM/Poly1305/GHASH/ZUC/SNOW3G/KASUMI/SM3/CRC outputs (assembly managers and kernels: not built in this session)',
                    'the SIMD SHA round functions on symbolic data', 'lengths not listed']
    h = os.path.join(VERIF, 'cbmc', 'sha_mb.c')
    bases = {}
    for s in small:
        gb = os.path.join(ctx.scratch, 'sha%d.gb' % s)
        gotocc(ctx, h, gb, defs=['-DSHA=%d' % s, '-DMAXLEN=%d' % (max(small[s]) + 2)])
        bases[s] = gb
    gbw = os.path.join(ctx.scratch, 'sha1_w.gb')
    gotocc(ctx, h, gbw, defs=['-DSHA=1', '-DMAXLEN=70', '-DWITNESS'])
    gb2 = os.path.join(ctx.scratch, 'sha1_two.gb')
    work = [(s, L, False) for s in small for L in sorted(set(small[s]))] + [(1, 56, True)]
    flags = ['--unwinding-assertions', '--drop-unused-functions', '--no-malloc-may-fail', '--object-bits', '12']

    def one(w):
        s, L, wit = w
        c = os.path.join(ctx.scratch, 'len_%d_%d_%d.c' % (s, L, wit))
        open(c, 'w').write('const int cfg_len=%d, cfg_olen=0;\n' % L)
        q = os.path.join(ctx.scratch, 'shaq_%d_%d_%d.gb' % (s, L, wit))
        rc, o, _, _ = sh(['goto-cc', gbw if wit else bases[s], c, '-o', q], timeout=120)
        if rc != 0:
            raise Inconclusive('link failed')
        nm = '%sSHA-%d multi-buffer manager, message length %d: tag == leading digest words of MD-pad(msg) over the uninterpreted compression; job parks, flush returns it with COMPLETED_AUTH' % ('WITNESS ' if wit else '', s, L)
        uw = max(420, max(small[s]) + 2 + 1 + 2 * (128 if s in (384, 512) else 64) + 8)      # the reference's padding loop runs over MAXLEN + 1 + 2 blocks
        res, fails, log = cbmc(ctx, q, nm, unwind=uw, timeout=2400, expect='violated' if wit else 'discharged', trace=not wit, flags=flags)
        os.unlink(q)
        return w, res, fails, log

    for r in pool_map(one, work):
        if isinstance(r, Exception):
            ctx.inconclusive.append(str(r))
            continue
        (s, L, wit), res, fails, log = r
        if wit or res != 'violated':
            continue
        for fid, desc in fails[:2]:
            ctx.violation('sha_mb:SHA%d:len%d:%s' % (s, L, fid.split('.')[-1]), 'SHA-%d, length %d: %s (the CBMC trace over the real sha_mb_mgr.h is the replay)' % (s, L, desc), [log, h])
    try:
        poly = pq.get(timeout=1800)
    except Exception:
        poly = {'res': ([('poly1305_aead_update_scalar block step', None, 'no result from the worker process within 1800 s', 0)], []), 'src': {}}
    pt.join(10)
    if pt.is_alive():
        pt.kill()
    ctx.functions.update(poly.get('src', {}))
    for name, ok, detail, secs in poly['res'][0]:
        ctx.add('C02 ' + name, 'discharged' if ok else ('inconclusive' if ok is None else 'violated'), secs, 'asmx+z3', detail)
    for key, text in poly['res'][1]:
        ctx.violation(key, text + ' (replay: props/asm_poly.py run_step)')
    ctx.assume('Poly1305 (scalar): 64x64 products are unknowns bounded by what key clamping implies; that V = x0*r0 + (x0*r1 + x1*r0)*2^64 + x1*c1 + (x2*c1)*2^64 + (x2*r0)*2^128 '
               'is congruent to x*r modulo 2^130-5 (2^130 = 5, c1 = 5*r1/4) is school algebra and not re-proved; accumulator invariant a2 <= 4 is re-established by the step')
    ctx.outside += ['Poly1305: the AVX-512 / IFMA implementations, the final reduction and +S of POLY1305_FINALIZE, partial-block padding; the 64x64 multipliers themselves']
    ctx.samples.append('SHA-256, 55-byte message (one block incl. padding) vs 56-byte message (two blocks): both tags equal the padded-message digest over the UF compression')


if __name__ == '__main__':
    main_wrapper(PROP, run)
