"""C09 — every API entry point yields the same result for the same work item (dispatch level)."""
import os, re
from vlib.core import *
from props import c06
from props.ring import ARCH_FILES

PROP = 'C09'
SYNC_CIPHER = {'CBC': [16, 24, 32], 'CNTR': [16, 24, 32], 'ECB': [16, 24, 32], 'CFB': [16, 24, 32]}
SYNC_HASH = ['HMAC_SHA_1', 'HMAC_SHA_224', 'HMAC_SHA_256', 'HMAC_SHA_384', 'HMAC_SHA_512', 'SHA_1', 'SHA_224', 'SHA_256', 'SHA_384', 'SHA_512', 'AES_CMAC', 'AES_CMAC_BITLEN', 'AES_CMAC_256']
SYNC_AEAD = {'CCM': [16, 32]}


def run(ctx):
    from vlib import native
    en = native.enum_table(ctx)
    hashes = {n[len('IMB_AUTH_'):]: v for n, v in en.items() if n.startswith('IMB_AUTH_')}
    archs = ['sse_t1', 'avx512_t2'] if ctx.quick() else list(ARCH_FILES)
    ctx.bounds.update({'variants': archs, 'work_item': 'job fields and manager contents fully symbolic; one query per (entry point, algorithm cell)', 'burst': '2 jobs per synchronous burst', 'cbmc_unwind': 4})
    ctx.assume('leaf reachability as in C06: functions without a C body get the body assert(false); FAILED <=> reachable for some job contents')
    ctx.outside += ['that a synchronous burst returns with ALL its jobs completed (the private submit+flush loops are explored only to unwinding depth 4 with nondeterministic managers)',
                    'direct one-shot functions other than the ChaCha20-Poly1305 streaming calls (GCM/GMAC/GHASH, SHA one-shot/one-block, ZUC/SNOW3G/KASUMI n-buffer wrappers, CRC, QUIC helpers, single-block CFB) versus the job path',
                    'equality of the BYTES produced by distinct kernels reached from different entry points']
    bases = {}
    for r in pool_map(lambda a: (a, c06.build_variant(ctx, a)), archs):
        if isinstance(r, Exception):
            ctx.inconclusive.append(str(r))
        else:
            bases[r[0]] = r[1]
    work = []
    for a in bases:
        for n, keys in SYNC_CIPHER.items():
            mode = c06.CIPHERS[n][0]
            for k in keys:
                for d in (1, 2):
                    for kind in (0, 1, 4, 8):
                        work.append((a, (kind, mode, k, d, hashes['NULL']), n, None))
        for n, keys in SYNC_AEAD.items():
            mode = c06.CIPHERS[n][0]
            for k in keys:
                for d in (1, 2):
                    for kind in (0, 1, 10):
                        work.append((a, (kind, mode, k, d, hashes['AES_CCM']), n, None))
                    for kind in (2, 3):
                        work.append((a, (kind, mode, k, d, hashes['AES_CCM']), n, 'AES_CCM'))
        for hn in SYNC_HASH:
            for kind in (2, 3, 6, 9):
                work.append((a, (kind, c06.CIPHERS['NULL'][0], 16, 1, hashes[hn]), None, hn))

    res = {}
    for r in pool_map(lambda w: (w, c06.run_cell(ctx, bases[w[0]], w[0], w[1])), work):
        if isinstance(r, Exception):
            ctx.inconclusive.append(str(r))
            continue
        w, (leaves, secs, err) = r
        ctx.solver_s += secs
        res[(w[0], w[1])] = (leaves, err)
    helpers = re.compile(c06.HELPERS)
    for (a, cell), (leaves, err) in sorted(res.items()):
        kind, mode, key, d, h = cell
        if kind not in (4, 6, 8, 9, 10):
            continue
        what = 'mode=%d key=%d dir=%d hash=%d' % (mode, key, d, h)
        kname = {4: 'async burst (suite id) cipher', 6: 'async burst (suite id) hash', 8: 'SUBMIT_CIPHER_BURST', 9: 'SUBMIT_HASH_BURST', 10: 'SUBMIT_AEAD_BURST'}[kind]
        name = 'C09 %s reaches the same kernels/managers as the job API for %s [%s]' % (kname, what, a)
        if leaves is None:
            ctx.add(name, 'inconclusive', 0, 'cbmc', err)
            continue
        real = set(l for l in leaves if not helpers.match(l))
        if kind in (4, 6):
            ref = res.get((a, (kind - 4, mode, key, d, h)), (None,))[0]
            refset = set(l for l in (ref or []) if not helpers.match(l))
            bad = None if ref is not None and refset == real else 'burst reaches %s, job API reaches %s' % (sorted(real), sorted(refset))
        else:
            if kind == 9:
                sub = res.get((a, (2, mode, key, d, h)), (None,))[0]
                fl = res.get((a, (3, mode, key, d, h)), (None,))[0]
            elif kind == 10:
                sub = (res.get((a, (0, mode, key, d, h)), (None,))[0] or []) + (res.get((a, (2, mode, key, d, h)), (None,))[0] or [])
                fl = (res.get((a, (1, mode, key, d, h)), (None,))[0] or []) + (res.get((a, (3, mode, key, d, h)), (None,))[0] or [])
            else:
                sub = res.get((a, (0, mode, key, d, h)), (None,))[0]
                fl = res.get((a, (1, mode, key, d, h)), (None,))[0]
            if sub is None or fl is None:
                ctx.add(name, 'inconclusive', 0, 'cbmc', 'reference cell missing')
                continue
            subs = set(l for l in sub if not helpers.match(l))
            allowed = subs | set(l for l in fl if not helpers.match(l))
            bad = None
            if not real:
                bad = 'the synchronous burst reaches no kernel at all'
            elif not real <= allowed:
                bad = 'the synchronous burst reaches %s which the job API does not use for this algorithm (job API: %s)' % (sorted(real - allowed), sorted(allowed))
            elif subs and not (subs & real):
                bad = 'the synchronous burst never reaches the job API\'s submit routine(s) %s; it reaches %s' % (sorted(subs), sorted(real))
        ctx.add(name, 'violated' if bad else 'discharged', 0, 'cbmc', bad or ('leaves: ' + ','.join(sorted(real))))
        if bad:
            ctx.violation('%s:%s:%s' % (a, kname.replace(' ', '_'), what.replace(' ', '_')), '%s: %s (replay: link cbmc/tabcell.c with cfg_kind=%d cfg_mode=%d cfg_key=%d cfg_dir=%d cfg_hash=%d for %s)' % (
                name, bad, kind, mode, key, d, h, ARCH_FILES[a]))
    # must-fail twin (vacuity): the comparison has to tell key sizes apart - a burst cell held against the job-API cells of a DIFFERENT key size must mismatch
    for a in bases:
        cbc, nul = c06.CIPHERS['CBC'][0], hashes['NULL']
        b16 = res.get((a, (8, cbc, 16, 1, nul)), (None,))[0]
        j24 = (res.get((a, (0, cbc, 24, 1, nul)), (None,))[0] or []) + (res.get((a, (1, cbc, 24, 1, nul)), (None,))[0] or [])
        if b16 is not None and j24:
            real = set(l for l in b16 if not helpers.match(l))
            allowed = set(l for l in j24 if not helpers.match(l))
            ctx.add('WITNESS SUBMIT_CIPHER_BURST(CBC,key 16) held against the job-API cells of key 24 must mismatch [%s]' % a, 'violated' if (real and not real <= allowed) else 'discharged', 0, 'cbmc',
                    'burst: %s; wrong reference: %s' % (sorted(real), sorted(allowed)), expect='violated')
    # ChaCha20-Poly1305: the direct init/update/finalize calls and the single job on the same work item both equal ONE specification
    # (Poly1305 stream and keystream position) => they equal each other, whatever the segmentation
    from props import c10
    c10.run_chapoly(ctx, [3, 16, 21], [13], label='C09')
    # the no-check / check entry points share one implementation: checked by the ring harness (entries 1/2 and 7/8)
    ctx.samples.append('SUBMIT_CIPHER_BURST(CBC,enc,key 24) reaches {submit,flush}_job_aes192_enc: exactly the managers the job API cell uses')


if __name__ == '__main__':
    main_wrapper(PROP, run)
