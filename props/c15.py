"""C15 — re-initialising a manager restores the pristine empty state."""
from vlib.core import *
from props import reset

PROP = 'C15'


def run(ctx):
    archs = ['sse_t1'] if ctx.quick() else ['sse_t1', 'sse_t2', 'sse_t3', 'avx2_t1', 'avx2_t2', 'avx2_t3', 'avx512_t1', 'avx512_t2']
    ctx.bounds.update({'pre_state': 'the manager under test holds ARBITRARY bytes (any history, any earlier variant, jobs in flight); one query per out-of-order manager and variant',
                       'compared': 'every byte below the road block (arbitrary index) against the image produced from zero-filled memory', 'cbmc_unwind': 45, 'variants': archs})
    ctx.assume('managers the variant\'s translation unit never refers to outside reset_ooo_mgrs() are skipped (listed in evidence): their content cannot influence that variant')
    ctx.assume('the other managers of the same IMB_MGR are mapped to one scratch object (their content is irrelevant to the query, they only have to be writable)')
    ctx.outside.append('equality of all FUTURE behaviour with a fresh manager follows from equal state + determinism of the code, not from a separate run; '
                       'agreement of the lane count passed to ooo_mgr_*_reset with the lane count the assembly expects is checked by the asmx manager harnesses (C04)')
    reset.run_reset(ctx, archs, noreset=False)
    ctx.samples.append('aes128_ooo holding arbitrary bytes: after init_mb_mgr_sse_t1_internal(state,1) every byte below road_block equals the zero-memory image; earliest_job=-1,next_job=0')


if __name__ == '__main__':
    main_wrapper(PROP, run)
