"""Scenario harness (like props/asm_cmac.py) for the AES-CBC-ENCRYPT multi-buffer managers whose lane count the inductive harness of
props/asm_cbc.py does not cover: the x16 VAES managers of avx512_t2 (submit/flush + the real aes_cbc_enc_*_vaes_avx512 kernel).
Manager image from the real reset routine, a script of lanes+1 submits followed by flushes, block counts concrete, every plaintext /
IV / round-key byte symbolic, AESENC uninterpreted.  Obligations: every ciphertext byte = CBC over the job's own key/IV/plaintext
(C01, C04), exact-size objects (C07), nothing key/plaintext-dependent left in the manager, registers, stack (C13), descriptor write set
= status (C14), every job handed back exactly once."""
import os, time
from z3 import (BitVecVal, Or, Extract, Concat, simplify, sat, unsat, is_bv_value, is_true)
from vlib.core import *
from vlib import native
from vlib.asmx.engine import Engine, State, Region, bv, simp, conc, fresh, Unsupported, BoundExceeded, RET_SENTINEL
from vlib.asmx.decode import Obj
from props.asm_hmac import rd, cat, bytes_of, reset_image, same_bytes
from props.asm_kern import enc

MGR, JOBS, STK, DATA = 0x1500000, 0x1600000, 0x1700000, 0x1800000
SPAN = 0x20000
MG = dict(mgr='MB_MGR_AES_OOO', reset='ooo_mgr_aes_reset')
VARIANTS = {
    'vaes': dict(dir='avx512_t2', lanes=16, files=lambda b: ['mb_mgr_aes%d_cbc_enc_submit_avx512.asm' % b, 'mb_mgr_aes%d_cbc_enc_flush_avx512.asm' % b, 'aes_cbc_enc_vaes_avx512.asm'],
                 sub='submit_job_aes%d_enc_vaes_avx512', fl='flush_job_aes%d_enc_vaes_avx512'),
    'sse': dict(dir='sse_t1', lanes=8, files=lambda b: ['mb_mgr_aes%d_cbc_enc_submit_x8_sse.asm' % b, 'mb_mgr_aes%d_cbc_enc_flush_x8_sse.asm' % b, 'aes%d_cbc_enc_x8_sse.asm' % b],
                sub='submit_job_aes%d_enc_x8_sse', fl='flush_job_aes%d_enc_x8_sse'),
}


def offsets(ctx):
    items = [('in', 'offsetof(MB_MGR_AES_OOO,args.in)'), ('out', 'offsetof(MB_MGR_AES_OOO,args.out)'), ('keys', 'offsetof(MB_MGR_AES_OOO,args.keys)'),
             ('IV', 'offsetof(MB_MGR_AES_OOO,args.IV)'), ('road', 'offsetof(MB_MGR_AES_OOO,road_block)'),
             ('JOB_SZ', 'sizeof(IMB_JOB)'), ('J_src', 'offsetof(IMB_JOB,src)'), ('J_dst', 'offsetof(IMB_JOB,dst)'), ('J_coff', 'offsetof(IMB_JOB,cipher_start_src_offset_in_bytes)'),
             ('J_clen', 'offsetof(IMB_JOB,msg_len_to_cipher_in_bytes)'), ('J_key', 'offsetof(IMB_JOB,enc_keys)'), ('J_iv', 'offsetof(IMB_JOB,iv)'), ('J_status', 'offsetof(IMB_JOB,status)')]
    return native.offsets(ctx, ['#include "intel-ipsec-mb.h"', '#include "include/ipsec_ooo_mgr.h"'], items)


class Res:
    def __init__(self):
        self.obl, self.viol = [], []
        self.steps = self.queries = 0
        self.solver_s = 0.0
        self.src = {}


def run_scenario(ctx, variant, bits, blocks, coff=0, safe_data=True, res=None, sabotage=None):
    """blocks: number of 16-byte blocks of each job"""
    res = res or Res()
    V = VARIANTS[variant]
    O = offsets(ctx)
    rounds = {128: 10, 192: 12, 256: 14}[bits]
    KS = 16 * (rounds + 1)
    drop = () if safe_data else ('-DSAFE_DATA',)
    from vlib.asmx.link import link_units
    out = os.path.join(ctx.scratch, 'cbcsc_%s_%d%s.o' % (variant, bits, '' if safe_data else '_ns'))
    link_units(ctx, ['%s/%s' % (V['dir'], f) for f in V['files'](bits)] + ['x86_64/const.asm'], out, drop=drop)
    obj = Obj(out)
    res.src.update(ctx.functions)
    img = reset_image(ctx, 'aes_ooo', V['lanes'], MG)
    nj = len(blocks)
    script = [('s', i) for i in range(nj)] + [('f',)] * (nj + 1)
    name = 'cbc-enc-%d %s blocks=%s%s' % (bits, variant, list(blocks), ' coff=%d' % coff if coff else '')
    t0 = time.time()
    E = Engine(obj, mode='precise', max_steps=900000, loop_bound=200)
    st = State()
    mgr = Region('mgr', MGR, O['road'], True, img)
    jobs = Region('jobs', JOBS, nj * O['JOB_SZ'])
    stk = Region('stack', STK, 4096)
    ro = Region('rodata', obj.RODATA_BASE, max(1, len(obj.rodata)), False, obj.rodata)
    tx = Region('text', obj.TEXT_BASE, max(1, len(obj.text_bytes)), False, obj.text_bytes)
    st.regions = [mgr, jobs, stk, ro, tx]
    J = []
    for i, nb in enumerate(blocks):
        L = 16 * nb
        base = DATA + i * SPAN
        rin = Region('pt%d' % i, base + coff, L - (1 if sabotage == 'shrink' and i == 0 else 0), writable=False, secret=True)
        rout = Region('ct%d' % i, base + 0x8000, L)
        rks = Region('ks%d' % i, base + 0x10000, KS, writable=False, secret=True)
        riv = Region('iv%d' % i, base + 0x11000, 16, writable=False)
        st.regions += [rin, rout, rks, riv]
        oj = i * O['JOB_SZ']
        for f, v in (('J_src', base), ('J_dst', rout.base), ('J_coff', coff), ('J_clen', L), ('J_key', rks.base), ('J_iv', riv.base)):
            for k in range(8):
                jobs.bytes[oj + O[f] + k] = BitVecVal((v >> (8 * k)) & 0xff, 8)
        J.append(dict(addr=JOBS + oj, off=oj, L=L))
    snap = {r.name: r.clone() for r in st.regions}
    stat0 = [rd(jobs, j['off'] + O['J_status'], 4) for j in J]
    rsp0 = STK + 4096 - 8 - 256
    states = [st]
    returned = {id(st): []}
    try:
        for step, op in enumerate(script):
            nxt = []
            for s in states:
                hist = returned.pop(id(s))
                s.r[4] = bv(rsp0, 64)
                sreg = [r for r in s.regions if r.name == 'stack'][0]
                for k in range(8):
                    sreg.bytes[rsp0 - STK + k] = BitVecVal((RET_SENTINEL >> (8 * k)) & 0xff, 8)
                s.r[7] = bv(MGR, 64)
                if op[0] == 's':
                    s.r[6] = bv(J[op[1]]['addr'], 64)
                    fin = E.run(s, V['sub'] % bits)
                else:
                    s.r[6] = fresh(64, 'garbage')
                    fin = E.run(s, V['fl'] % bits)
                for f in fin:
                    ret = conc(simp(f.r[0]))
                    if ret is None:
                        raise Unsupported('symbolic return value after %s' % (op,))
                    returned[id(f)] = hist + [(step, op, ret)]
                    nxt.append(f)
            states = nxt
    except (Unsupported, BoundExceeded) as e:
        res.obl.append((name, None, 'inconclusive: ' + str(e)[:300], time.time() - t0))
        return res
    res.steps += E.insn_count
    for pi, f in enumerate(states):
        hist = returned[id(f)]
        R = {r.name: r for r in f.regions}
        pre = name + ' path %d/%d ' % (pi + 1, len(states))
        rets = [r for (_, _, r) in hist if r != 0]
        ok = sorted(rets) == sorted(j['addr'] for j in J) and hist[-1][2] == 0
        res.obl.append((pre + 'C05 every submitted job is handed back exactly once, the surplus flush returns NULL', ok, str([(o, hex(r)) for _, o, r in hist])[:300], 0))
        if not ok:
            res.viol.append(('C04:%s:handback' % name, 'jobs handed back: %s' % [hex(r) for r in rets]))
        for i, j in enumerate(J):
            if j['addr'] not in rets:
                continue
            ks = [rd(snap['ks%d' % i], 16 * k, 16) for k in range(rounds + 1)]
            if sabotage == 'oracle':
                ks = [ks[1]] + ks[1:]
            chain = rd(snap['iv%d' % i], 0, 16)
            exp = []
            for b in range(blocks[i]):
                p = rd(snap['pt%d' % i], 16 * b, 16) if not (sabotage == 'shrink' and i == 0 and b == blocks[i] - 1) else cat([snap['pt0'].get(16 * b + k) for k in range(15)] + [BitVecVal(0, 8)])
                chain = enc(p ^ chain, ks, rounds)
                exp += bytes_of(chain, 16)
            got = [R['ct%d' % i].get(k) for k in range(j['L'])]
            t1 = time.time()
            if same_bytes(got, exp):
                r = unsat
            else:
                r, m = E.check(f, Or(*[g != e for g, e in zip(got, exp)]))
            res.obl.append((pre + 'C01 job %d (%d blocks): every ciphertext byte == AES-%d-CBC(own key, own IV, own plaintext) over uninterpreted rounds' % (i, blocks[i], bits),
                            (True if r == unsat else (False if r == sat else None)), str(r), time.time() - t1))
            if r == sat:
                res.viol.append(('C01:%s:job%d' % (name, i), 'ciphertext of job %d (%d blocks) differs from AES-%d-CBC of its own key/IV/plaintext' % (i, blocks[i], bits)))
            stn = rd(R['jobs'], j['off'] + O['J_status'], 4)
            r, m = E.check(f, stn != (stat0[i] | 1))
            res.obl.append((pre + 'C14 job %d: status == previous | COMPLETED_CIPHER' % i, r == unsat, str(r), 0))
            if r != unsat:
                res.viol.append(('C14:%s:job%d:status' % (name, i), 'status of the returned job is not previous|COMPLETED_CIPHER'))
        wset = sorted(R['jobs'].written)
        okw = all(any(j['off'] + O['J_status'] <= o < j['off'] + O['J_status'] + 4 for j in J) for o in wset)
        res.obl.append((pre + 'C14 descriptor write set is a subset of the status fields', okw, str(wset[:12]), 0))
        if not okw:
            res.viol.append(('C14:%s:writeset' % name, 'manager wrote job descriptor bytes other than status: offsets %s' % wset[:16]))
        ok = not f.faults
        res.obl.append((pre + 'C07 every access inside the exact-size plaintext / ciphertext / key schedule / IV objects, the manager and the stack', ok, str(f.faults[:3]), 0))
        if not ok:
            res.viol.append(('C07:%s' % name, 'access outside the caller objects: %s' % (['%s %s(+%d bytes) at .text+%x' % (x[0], x[4], x[2], x[3] or 0) for x in f.faults[:3]],)))
        if safe_data or sabotage == 'nosafe':
            def raw(term, memo):
                k = term.get_id()
                if k in memo:
                    return memo[k]
                memo[k] = False
                d = term.decl().name()
                if term.num_args() == 0:
                    r_ = (not is_bv_value(term)) and d.startswith(('pt', 'ks'))
                elif d.startswith('aes'):
                    r_ = False
                else:
                    r_ = any(raw(c, memo) for c in term.children())
                memo[k] = r_
                return r_
            leaks = []
            for o in range(O['road']):
                if any(O[x] <= o < O[x] + 128 for x in ('in', 'out', 'keys')):
                    continue
                t = R['mgr'].get(o)
                if not is_bv_value(t) and raw(t, {}):
                    leaks.append('mgr+%d' % o)
                    if len(leaks) > 6:
                        break
            for i in range(32):
                if not is_bv_value(f.v[i]) and raw(f.v[i], {}):
                    leaks.append('zmm%d' % i)
            sr = R['stack']
            for o in sorted(sr.written):
                if o < rsp0 - STK and not is_bv_value(sr.get(o)) and raw(sr.get(o), {}):
                    leaks.append('stack%+d' % (o - (rsp0 - STK)))
                    break
            res.obl.append((pre + 'C13 after all jobs are handed back no plaintext / round-key byte is left in the manager (IV slots, key table), vector registers or stack frame', not leaks, ','.join(leaks[:8]), 0))
            if leaks:
                res.viol.append(('C13:%s' % name, 'residue after the last job was handed back: %s' % ','.join(leaks[:10])))
    res.queries += E.nq
    res.solver_s += E.tq
    return res


def scenarios(variant, quick):
    nl = VARIANTS[variant]['lanes']
    out = []
    base = [4, 5, 6, 4, 5, 6, 4, 5, 6, 2, 5, 6, 4, 5, 6, 4, 3, 1, 7, 2]
    out.append(dict(blocks=base[:nl + 1]))
    for j in sorted(set([0, nl - 1, nl // 2, min(nl - 1, nl // 2 + 1)])):          # position of the strictly smallest lane
        ls = [3 + (i % 3) for i in range(nl)]
        ls[j] = 1
        out.append(dict(blocks=ls + [2]))
    out.append(dict(blocks=[2, 1], coff=5))
    if not quick:
        out.append(dict(blocks=[9, 17, 1, 33, 2, 16, 15, 8, 4, 3, 2, 1, 5, 6, 7, 8, 10]))
    return out


def _task(a):
    import traceback
    variant, bits, kw = a
    from vlib.core import Ctx
    c = Ctx('asmx_worker', 'quick', 0)
    try:
        r = run_scenario(c, variant, bits, **kw)
        return dict(obl=r.obl, viol=r.viol, steps=r.steps, queries=r.queries, solver_s=r.solver_s, src=r.src, args=a)
    except Exception as e:
        return dict(obl=[('cbc-enc-%d %s %s' % (bits, variant, kw), None, 'engine error: ' + traceback.format_exc()[-400:], 0)], viol=[], steps=0, queries=0, solver_s=0, src={}, args=a)
    finally:
        c.cleanup()


def run_family(ctx, prop):
    from multiprocessing import Pool
    quick = ctx.quick()
    tasks = [('vaes', bits, kw) for bits in (128, 192, 256) for kw in scenarios('vaes', quick)]
    if prop == 'C01':
        tasks.append(('vaes', 128, dict(blocks=[2, 3], sabotage='oracle')))
    if prop == 'C07':
        tasks.append(('vaes', 128, dict(blocks=[2, 3], sabotage='shrink')))
    if prop == 'C13':
        tasks.append(('vaes', 128, dict(blocks=[2, 3], safe_data=False, sabotage='nosafe')))
    want = {'C01': (' C01 ',), 'C04': (' C01 job', ' C05 '), 'C07': (' C07 ',), 'C13': (' C13 ',), 'C14': (' C14 ',)}[prop]
    ctx.bounds['cbc_enc_x16_managers'] = ('submit/flush_job_aes{128,192,256}_enc_vaes_avx512 with the real aes_cbc_enc_*_vaes_avx512 kernels from the image of the real reset routine; scripts of 17 '
                                          'submits then flushes, 1..7 blocks per job (thorough: up to 33), minimum moved through lanes 0/8/9/15; plaintext, IV, round keys symbolic')
    with Pool(min(NCPU, max(1, len(tasks)))) as pool:
        for r in pool.imap_unordered(_task, tasks):
            ctx.solver_s += r['solver_s']
            ctx.functions.update(r['src'])
            kw = r['args'][2]
            sab = kw.get('sabotage')
            if sab:
                pfx = {'oracle': 'C01', 'shrink': 'C07', 'nosafe': 'C13'}[sab]
                got = any(k.startswith(pfx) for k, t in r['viol'])
                ctx.add('WITNESS x16 CBC-encrypt scenario with %s must report a %s violation' % ({'oracle': 'a wrong whitening key in the reference', 'shrink': 'a plaintext object one byte short',
                                                                                               'nosafe': 'the manager assembled without -DSAFE_DATA'}[sab], pfx),
                        'violated' if got else 'discharged', 0, 'asmx', str(r['obl'][:1])[:200], expect='violated')
                continue
            for name, ok, detail, secs in r['obl']:
                if ok is not None and not any(w in name for w in want):
                    continue
                if prop == 'C04':
                    name = name.replace(' C01 job', ' C04 (co-scheduled with the other jobs of the script) job').replace(' C05 ', ' C04 ')
                ctx.add(name, 'discharged' if ok else ('inconclusive' if ok is None else 'violated'), secs, 'asmx', detail)
            for key, text in r['viol']:
                if key.startswith(prop) or (prop == 'C04' and key.startswith('C01')):
                    ctx.violation(key, text + ' (replay: props/asm_cbcsc.py run_scenario%s)' % (r['args'],))
