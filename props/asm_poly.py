"""C02: the scalar Poly1305 block step (lib/x86_64/poly1305.asm, real machine code of poly1305_aead_update_scalar) for ALL accumulators,
message blocks and clamped keys, decided in two lemmas cut at the start of the partial reduction:
  (1) accumulation: with every 64x64 product replaced by an unknown constrained only by the bound the clamping gives it (the six
      products the code executes are first matched, by solver-checked equality of their factors, to the schoolbook products x_i*r_j
      with c1 = r1 + r1/4), the three limbs T3:A1:A0 the code holds at the cut equal
          V = x0*r0 + (x0*r1 + x1*r0)*2^64 + x1*c1 + (x2*c1)*2^64 + (x2*r0)*2^128,   x = accumulator + block + 2^128;
  (2) partial reduction: from ARBITRARY limbs T3 < 3*2^62, A1, A0 at the cut the code returns exactly
          (T3:A1:A0 mod 2^130) + 5 * (T3:A1:A0 div 2^130)   with the top limb <= 4  (every carry of the chain matters here).
That V is congruent to x*r modulo 2^130-5 is school algebra (2^130 = 5, r1 = 0 mod 4); it is stated, not re-proved.
A counterexample of (2) or (1) is replayed by running the same machine code on the model's concrete inputs with exact multiplication
and comparing with big-integer arithmetic modulo 2^130-5."""
import os, time
from z3 import (BitVec, BitVecVal, And, Or, Not, ULE, ULT, UGT, Extract, Concat, ZeroExt, LShR, If, Function, BitVecSort, simplify, substitute, Solver, sat, unsat)
from vlib.core import *
from vlib.asmx.engine import Engine, State, Region, bv, simp, conc, RET_SENTINEL, Unsupported, BoundExceeded
from vlib.asmx.decode import Obj

MSG, HASH, KEY, STK = 0x1800000, 0x1810000, 0x1820000, 0x1700000
P1305 = (1 << 130) - 5
FN = 'poly1305_aead_update_scalar'


def rd(reg, off, n):
    return simplify(Concat(*reversed([reg.get(off + i) for i in range(n)])))


def setup(obj, concrete=None):
    """fresh state for one 16-byte block; concrete = dict(a0,a1,a2,m,r0,r1) for the replay"""
    st = State()
    rmsg = Region('msg', MSG, 16, writable=False)
    rh = Region('hash', HASH, 24)
    rk = Region('key', KEY, 32, writable=False)
    stk = Region('stack', STK, 4096)
    ro = Region('rodata', obj.RODATA_BASE, max(1, len(obj.rodata)), False, obj.rodata)
    tx = Region('text', obj.TEXT_BASE, max(1, len(obj.text_bytes)), False, obj.text_bytes)
    st.regions = [rmsg, rh, rk, stk, ro, tx]
    if concrete:
        for reg, off, val, n in ((rh, 0, concrete['a0'], 8), (rh, 8, concrete['a1'], 8), (rh, 16, concrete['a2'], 8), (rmsg, 0, concrete['m'], 16), (rk, 0, concrete['r0'], 8), (rk, 8, concrete['r1'], 8)):
            for k in range(n):
                reg.bytes[off + k] = BitVecVal((val >> (8 * k)) & 0xff, 8)
    rsp0 = STK + 4096 - 8 - 256
    st.r[4] = bv(rsp0, 64)
    for k in range(8):
        stk.bytes[rsp0 - STK + k] = BitVecVal((RET_SENTINEL >> (8 * k)) & 0xff, 8)
    st.r[7], st.r[6], st.r[2], st.r[1] = bv(MSG, 64), bv(16, 64), bv(HASH, 64), bv(KEY, 64)
    return st, rmsg, rh, rk


def find_cut(obj):
    """start of the partial reduction of the block loop: `mov T1,T3 ; mov A2d,T3d ; and T1,~3 ; shr T3,2 ; ... add A0,T1 ; adc A1,0 ; adc A2d,0`.
    Returns (cut address, register numbers T3, A1, A0) from the first such pattern after the function entry."""
    start = obj.syms[FN][1]
    addrs = sorted(a for a in obj.insns if a >= start)
    for idx, a in enumerate(addrs):
        i = obj.insns[a]
        if i.mnem == 'and' and len(i.ops) == 2 and i.ops[0].kind == 'gpr' and i.ops[1].kind == 'imm' and (i.ops[1].imm & 0xffffffffffffffff) == 0xfffffffffffffffc and idx >= 2:
            m1, m2 = obj.insns[addrs[idx - 2]], obj.insns[addrs[idx - 1]]
            if m1.mnem != 'mov' or m1.ops[0].reg != i.ops[0].reg or m1.ops[1].kind != 'gpr':
                continue
            t1, t3 = i.ops[0].reg, m1.ops[1].reg
            a0 = a1 = None
            for j in range(idx + 1, min(idx + 10, len(addrs))):
                k = obj.insns[addrs[j]]
                if k.mnem == 'add' and k.ops[1].kind == 'gpr' and k.ops[1].reg == t1 and k.ops[0].kind == 'gpr' and k.ops[0].reg != t1:
                    a0 = k.ops[0].reg
                    nx = obj.insns[addrs[j + 1]]
                    if nx.mnem == 'adc' and nx.ops[0].kind == 'gpr':
                        a1 = nx.ops[0].reg
                    break
            if a0 is not None and a1 is not None:
                return addrs[idx - 2], t3, a1, a0
    return None


def replay(obj, vals):
    """exact execution of the real code on concrete inputs; True iff the result is the partially reduced product (mod p, top limb <= 4)"""
    E = Engine(obj, mode='precise', max_steps=100000, loop_bound=16)
    st, rmsg, rh, rk = setup(obj, vals)
    fin = E.run(st, FN)
    R = {r.name: r for r in fin[0].regions}
    b = [conc(rd(R['hash'], 8 * k, 8)) for k in range(3)]
    if any(x is None for x in b):
        return None, None
    got = b[0] + (b[1] << 64) + (b[2] << 128)
    x = vals['a0'] + (vals['a1'] << 64) + (vals['a2'] << 128) + vals['m'] + (1 << 128)
    want = (x * (vals['r0'] + (vals['r1'] << 64))) % P1305
    return (got % P1305 == want and b[2] <= 4), (got, want)


def run_step(ctx):
    from vlib.asmx.link import link_units
    out = os.path.join(ctx.scratch, 'poly.o')
    link_units(ctx, ['x86_64/poly1305.asm', 'x86_64/const.asm'], out)
    obj = Obj(out)
    obl, viol = [], []
    cut = find_cut(obj)
    if cut is None:
        return [(FN + ': partial-reduction cut point', None, 'inconclusive: the reduction pattern (and reg,~3 / add / adc / adc) was not found in the block loop', 0)], []
    cut_addr, rT3, rA1, rA0 = cut
    W = 320
    Z = lambda x: ZeroExt(W - x.size(), x)
    # ---------------- lemma 1: accumulation up to the cut, products abstracted
    E = Engine(obj, mode='precise', max_steps=100000, loop_bound=16)
    UF128 = Function('mul64x64', BitVecSort(64), BitVecSort(64), BitVecSort(128))
    UF64 = Function('mul64lo', BitVecSort(64), BitVecSort(64), BitVecSort(64))
    calls = []

    def mul_abstract(x, y, w):
        x, y = simplify(x), simplify(y)
        lo, hi = If(ULE(x, y), x, y), If(ULE(x, y), y, x)
        app = UF128(lo, hi) if w == 128 else UF64(lo, hi)
        calls.append((x, y, w, app))
        return app
    E.mul_abstract = mul_abstract
    st, rmsg, rh, rk = setup(obj)
    A0, A1, A2 = rd(rh, 0, 8), rd(rh, 8, 8), rd(rh, 16, 8)
    R0, R1 = rd(rk, 0, 8), rd(rk, 8, 8)
    M = rd(rmsg, 0, 16)
    pre = [ULE(A2, 4), (R0 & BitVecVal(0xf0000003f0000000, 64)) == 0, (R1 & BitVecVal(0xf0000003f0000003, 64)) == 0]     # accumulator invariant, RFC 8439 clamp
    st.pc += pre
    try:
        mids = E.run(st, FN, stop_at={cut_addr})
    except (Unsupported, BoundExceeded) as e:
        return [(FN + ' accumulation', None, 'inconclusive: ' + str(e)[:200], 0)], []
    mids = [s for s in mids if s.ip == cut_addr]
    if len(mids) != 1:
        return [(FN + ' accumulation', None, 'inconclusive: %d paths reach the cut' % len(mids), 0)], []
    f = mids[0]
    s320 = Z(A0) + (Z(A1) << 64) + (Z(A2) << 128) + Z(M) + (BitVecVal(1, W) << 128)
    x0, x1, x2 = simplify(Extract(63, 0, s320)), simplify(Extract(127, 64, s320)), simplify(Extract(191, 128, s320))
    C1 = simplify(R1 + LShR(R1, 2))
    want = {'x0*r0': (x0, R0, 128), 'x0*r1': (x0, R1, 128), 'x1*r0': (x1, R0, 128), 'x1*c1': (x1, C1, 128), 'x2*c1': (x2, C1, 64), 'x2*r0': (x2, R0, 64)}
    got = {}
    t1 = time.time()
    for (cx, cy, cw, app) in calls:
        for nm_, (wx, wy, ww) in want.items():
            if ww != cw or nm_ in got:
                continue
            hit = False
            for (p_, q_) in ((cx, cy), (cy, cx)):
                s2 = Solver()
                s2.set('timeout', 60000)
                for pc_ in f.pc:
                    s2.add(pc_)
                s2.add(Or(p_ != wx, q_ != wy))
                if s2.check() == unsat:
                    got[nm_] = app
                    hit = True
                    break
            if hit:
                break
    missing = [k_ for k_ in want if k_ not in got]
    nm1 = FN + ': the multiplications executed before the reduction are exactly the six schoolbook products x_i*r_j (c1 = r1 + r1/4), for all accumulators/blocks/clamped keys'
    if missing or len(calls) != 6:
        obl.append((nm1, False, 'not found: %s (%d multiplications executed)' % (missing, len(calls)), time.time() - t1))
        viol.append(('C02:poly1305:products', 'the Poly1305 block step multiplies other factors than the schoolbook products: missing %s, %d multiplications executed' % (missing, len(calls))))
        return obl, viol
    obl.append((nm1, True, '', time.time() - t1))
    subs, bounds = [], []
    # what clamping gives: r0, r1 < 2^60, c1 = r1 + r1/4 < 1.25 * 2^60, x0, x1 < 2^64, x2 = a2 + 1 + carry <= 6
    BOUND = {'x0*r0': 1 << 124, 'x0*r1': 1 << 124, 'x1*r0': 1 << 124, 'x1*c1': 5 << 122, 'x2*c1': 15 << 59, 'x2*r0': 6 << 60}
    name_of = {id(app): nm_ for nm_, app in got.items()}
    for n_, (cx, cy, cw, app) in enumerate(calls):
        v = BitVec('prod%d_%d' % (cw, n_), cw)
        subs.append((app, v))
        bounds.append(ULT(v, BitVecVal(BOUND[name_of[id(app)]], cw)))
    V = Z(got['x0*r0']) + ((Z(got['x0*r1']) + Z(got['x1*r0'])) << 64) + Z(got['x1*c1']) + (Z(got['x2*c1']) << 64) + (Z(got['x2*r0']) << 128)
    L = Z(f.r[rA0]) + (Z(f.r[rA1]) << 64) + (Z(f.r[rT3]) << 128)
    bad1 = Or(simplify(L) != simplify(V), Not(ULT(f.r[rT3], BitVecVal(3 << 62, 64))))
    s = Solver()
    s.set('timeout', 600000)
    for b_ in bounds:
        s.add(b_)
    s.add(substitute(simplify(bad1), *subs))
    t1 = time.time()
    r = s.check()
    nm2 = FN + ': the limbs T3:A1:A0 held at the reduction equal V = x0*r0 + (x0*r1 + x1*r0)*2^64 + x1*c1 + (x2*c1)*2^64 + (x2*r0)*2^128 and T3 < 3*2^62, for ALL values of the six products within the bounds clamping gives them'
    obl.append((nm2, True if r == unsat else (False if r == sat else None), str(r), time.time() - t1))
    cex = None
    if r == sat:
        viol.append(('C02:poly1305:accumulate', 'Poly1305 accumulation (carry chain of the six products) does not add up to V for some product values (model: %s)' % str(s.model())[:300]))
    # ---------------- lemma 2: partial reduction from arbitrary limbs at the cut
    E2 = Engine(obj, mode='precise', max_steps=100000, loop_bound=16)
    g = f.clone()
    T3, L1, L0 = BitVec('T3', 64), BitVec('L1', 64), BitVec('L0', 64)
    g.r[rT3], g.r[rA1], g.r[rA0] = T3, L1, L0
    g.pc = [ULT(T3, BitVecVal(3 << 62, 64))]
    g.visits = {}
    try:
        fin = E2.run(g, cut_addr)
    except (Unsupported, BoundExceeded) as e:
        obl.append((FN + ' partial reduction', None, 'inconclusive: ' + str(e)[:200], 0))
        return obl, viol
    for pi, h in enumerate(fin):
        Rg = {r_.name: r_ for r_ in h.regions}
        B0, B1, B2 = rd(Rg['hash'], 0, 8), rd(Rg['hash'], 8, 8), rd(Rg['hash'], 16, 8)
        I = Z(B0) + (Z(B1) << 64) + (Z(B2) << 128)
        Vv = Z(L0) + (Z(L1) << 64) + (Z(T3) << 128)
        Ered = (Vv & BitVecVal((1 << 130) - 1, W)) + 5 * LShR(Vv, 130)
        s = Solver()
        s.set('timeout', 600000)
        for pc_ in h.pc:
            s.add(pc_)
        s.add(Or(simplify(I) != simplify(Ered), UGT(B2, 4)))
        t1 = time.time()
        r = s.check()
        nm3 = FN + ' path %d/%d: from ANY limbs T3 < 3*2^62, A1, A0 the stored accumulator == (T3:A1:A0 mod 2^130) + 5*(T3:A1:A0 div 2^130) and its top limb <= 4' % (pi + 1, len(fin))
        ok = True if r == unsat else (False if r == sat else None)
        detail = str(r)
        if r == sat:
            mdl = s.model()
            # prefer a counterexample that key r = 1 can produce (then the limbs at the cut are accumulator + block + 2^128), so that it can be replayed
            s.push()
            s.add(ULE(T3, 5), UGT(T3, 0))
            if s.check() == sat:
                mdl = s.model()
            s.pop()
            ev = lambda x: mdl.eval(x, model_completion=True).as_long()
            t3, l1, l0 = ev(T3), ev(L1), ev(L0)
            # replay: find inputs that put these limbs at the cut is not needed - with r = 1 the limbs at the cut ARE accumulator + block + 2^128
            vals = dict(a0=l0, a1=l1, a2=t3 - 1, m=0, r0=1, r1=0) if 1 <= t3 <= 5 else None      # accumulator + 0 + 2^128 = T3:A1:A0, times r = 1
            rep = replay(obj, vals) if vals else (None, None)
            detail = 'sat: T3=%x A1=%016x A0=%016x' % (t3, l1, l0)
            if rep[0] is False:
                viol.append(('C02:poly1305:reduce', 'Poly1305 partial reduction loses a carry: limbs T3:A1:A0 = %x:%016x:%016x are not reduced to (V mod 2^130) + 5*(V div 2^130); '
                             'replay on the real code with exact arithmetic: accumulator %x:%016x:%016x, block %032x, r = 1 gives %x, expected %x (mod 2^130-5)' % (
                                 t3, l1, l0, vals['a2'], vals['a1'], vals['a0'], vals['m'], rep[1][0], rep[1][1])))
            else:
                viol.append(('C02:poly1305:reduce', 'Poly1305 partial reduction: limbs T3:A1:A0 = %x:%016x:%016x are not reduced to (V mod 2^130) + 5*(V div 2^130) '
                             '(solver model over the real reduction code; these limbs need r != 1 to arise, no concrete replay was constructed)' % (t3, l1, l0)))
        obl.append((nm3, ok, detail, time.time() - t1))
        if h.faults:
            viol.append(('C07:poly1305:step', 'access outside the 16-byte block / 24-byte accumulator / 32-byte key: %s' % h.faults[:2]))
    return obl, viol
