"""C16 — re-attaching to a manager after a crash loses no in-flight job."""
import os
from vlib.core import *
from vlib.core import run as sh
from props import reset, ring, l1

PROP = 'C16'


def run(ctx):
    ctx.bounds.update({'crash_point': 'ANY state between API calls = any memory image satisfying the ring invariant R and lane invariant I (the pre-states of the inductive steps)',
                       'cbmc_unwind': 45})
    ctx.assume('OS premise of the property (same mapping addresses in the new process) is taken as given; fork/exec are not modelled')
    # (i) imb_set_pointers_mb_mgr(ptr, flags, 0): pointers pure function of ptr, scheduling state preserved
    inc = patched_header_dir(ctx, 2)
    h = os.path.join(VERIF, 'cbmc', 'setptr.c')
    for wit in (False, True):
        gb = os.path.join(ctx.scratch, 'setptr%s.gb' % ('_w' if wit else ''))
        gotocc(ctx, h, gb, defs=['-DWITNESS'] if wit else [], incs=[inc])
        gi = gb.replace('.gb', '.i.gb')
        rc, o, _, _ = sh(['goto-instrument', '--replace-calls', 'set_road_block:stub_set_road_block', gb, gi], timeout=300)
        if rc != 0:
            raise Inconclusive('goto-instrument failed: ' + o[-300:])
        res, fails, log = cbmc(ctx, gi, ('WITNESS ' if wit else '') + 'imb_set_pointers_mb_mgr(ptr,flags,0) on an arbitrary image: OOO pointers pure function of ptr, ring bytes preserved, '
                               'only road-block words written outside the header, used_arch re-bound once', unwind=45, timeout=900, expect='violated' if wit else 'discharged', trace=not wit,
                               flags=[f for f in CBMC_FLAGS if f != '--pointer-overflow-check'])  # pointers past the mapped header are only computed, never dereferenced
        if res == 'violated' and not wit:
            for fid, desc in fails:
                ctx.violation('setptr:' + fid.split('.')[-1], desc + ' (CBMC trace over the real alloc.c is the replay)', [log, h])
    ctx.assume('setptr harness maps only the IMB_MGR header (8-slot ring via the one-line patched header copy); set_road_block() is a recorder; any other access outside the header is reported as out-of-bounds')
    # (i-b) the per-architecture dispatchers hand reset_mgrs through unchanged to whichever variant the CPU selects
    for w, a in ((5, 'sse'), (6, 'avx2'), (7, 'avx512')):
        simple_cbmc(ctx, 'initgate.c', 'init_mb_mgr_%s_internal(state, r) on an arbitrary CPU: the selected variant initialiser receives exactly r (re-attach passes 0: no lane is reset)' % a, 30, ['-DWHICH=%d' % w])
    # (ii) re-binding function pointers without reset leaves every lane byte and the ring untouched
    archs = ['sse_t1'] if ctx.quick() else ['sse_t1', 'avx2_t1', 'avx512_t1', 'avx512_t2']
    reset.run_reset(ctx, archs, noreset=True)
    # (iii) from any R/I state, flushing hands back every in-flight job in order: FLUSH_JOB/FLUSH_BURST step laws + K1 termination
    ring.run_entries(ctx, [3, 4, 9], ['sse_t1'], witness_for=(3,))
    l1.run_k1(ctx)
    ctx.outside.append('progress of the assembly flush managers from an arbitrary lane state (flush returns a job iff a lane is occupied) and position independence of the '
                       'lane state are asmx obligations (C04 harnesses); covered there for the units listed in evidence/C04.json')
    ctx.samples.append('arbitrary memory image with used_arch=SSE: after imb_set_pointers_mb_mgr(p,flags,0) aes128_ooo == p+ALIGN(sizeof(IMB_MGR),64), jobs[]/earliest/next unchanged')


if __name__ == '__main__':
    main_wrapper(PROP, run)
