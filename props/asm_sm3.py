"""Precise asmx harness for the SM3 / HMAC-SM3 job routines (sse_t1/sm3_base_{msg,hmac}_sse.asm, real machine code).  The block
function `sm3_base_update(digest, data, nblocks)` is replaced by its contract (nblocks folds of an uninterpreted compression over the
32-byte state; registers the real routine does not provably preserve are havoc'd); `sm3_base_init` runs for real.  Reference:
Merkle-Damgard padding (64-byte blocks, 64-bit big-endian bit length) resp. HMAC over the same uninterpreted function; the tag is the
leading auth_tag_output_len_in_bytes bytes (every length 1..32 the validator admits)."""
import os, time
from z3 import (BitVecVal, Or, Extract, Concat, simplify, sat, unsat, is_bv_value, is_true)
from vlib.core import *
from vlib import native
from vlib.asmx.engine import Engine, State, Region, bv, simp, conc, fresh, Unsupported, BoundExceeded, RET_SENTINEL
from vlib.asmx.decode import Obj
from props.asm_hmac import rd, cat, bytes_of, md_pad, uf, HASHES, preserved_gprs, raw_secret, same_bytes

HASHES['sm3'] = dict(blk=64, ww=32, nw=8, outw=8, be=True, lenb=8, tags=tuple(range(1, 33)))
JOBS, STK, DATA = 0x1600000, 0x1700000, 0x1800000
UNITS = ['sse_t1/sm3_base_msg_sse.asm', 'sse_t1/sm3_base_hmac_sse.asm', 'sse_t1/sm3_base_update_sse.asm', 'sse_t1/sm3_base_init_sse.asm']


def be_bytes(state, H):
    out = []
    for i in range(H['nw']):
        out += list(reversed(bytes_of(Extract(32 * i + 31, 32 * i, state), 4)))
    return out


def spec(hmac, msg, ipad, opad, iv_state, taglen):
    H = HASHES['sm3']
    F = uf('sm3')
    chain = []
    st = cat(ipad) if hmac else iv_state
    p = md_pad(H, msg, 64 if hmac else 0)
    for b in range(len(p) // 64):
        st = F(st, cat(p[64 * b:64 * b + 64]))
        chain.append(st)
    if hmac:
        p2 = md_pad(H, be_bytes(st, H), 64)
        st = F(cat(opad), cat(p2))
    return [simplify(x) for x in be_bytes(st, H)[:taglen]], chain


class SResult:
    def __init__(self):
        self.obl, self.viol = [], []
        self.steps = self.queries = 0
        self.solver_s = 0.0
        self.src = {}


def run_one(ctx, hmac, length, taglen, hoff=0, safe_data=True, res=None, sabotage=None):
    res = res or SResult()
    H = HASHES['sm3']
    O = native.offsets(ctx, ['#include "intel-ipsec-mb.h"'], [('JOB_SZ', 'sizeof(IMB_JOB)'), ('J_src', 'offsetof(IMB_JOB,src)'), ('J_hoff', 'offsetof(IMB_JOB,hash_start_src_offset_in_bytes)'),
                       ('J_hlen', 'offsetof(IMB_JOB,msg_len_to_hash_in_bytes)'), ('J_tag', 'offsetof(IMB_JOB,auth_tag_output)'), ('J_taglen', 'offsetof(IMB_JOB,auth_tag_output_len_in_bytes)'),
                       ('J_ipad', 'offsetof(IMB_JOB,u.HMAC._hashed_auth_key_xor_ipad)'), ('J_opad', 'offsetof(IMB_JOB,u.HMAC._hashed_auth_key_xor_opad)'), ('J_status', 'offsetof(IMB_JOB,status)')])
    drop = () if safe_data else ('-DSAFE_DATA',)
    from vlib.asmx.link import link_units
    out = os.path.join(ctx.scratch, 'sm3%s.o' % ('' if safe_data else '_ns'))
    link_units(ctx, UNITS + ['x86_64/const.asm'], out, drop=drop)
    obj = Obj(out)
    res.src.update(ctx.functions)
    keep = preserved_gprs(obj, 'sm3_base_update')
    sym = 'sm3_hmac_submit_sse' if hmac else 'sm3_msg_submit_sse'
    name = '%s len=%d tag=%d%s' % (sym, length, taglen, ' hoff=%d' % hoff if hoff else '')
    t0 = time.time()
    E = Engine(obj, mode='precise', max_steps=400000, loop_bound=80)
    st = State()
    jobs = Region('jobs', JOBS, O['JOB_SZ'])
    stk = Region('stack', STK, 4096)
    ro = Region('rodata', obj.RODATA_BASE, max(1, len(obj.rodata)), False, obj.rodata)
    tx = Region('text', obj.TEXT_BASE, max(1, len(obj.text_bytes)), False, obj.text_bytes)
    rmsg = Region('msg0', DATA + hoff, max(length - (1 if sabotage == 'shrink' else 0), 1), writable=False, secret=True)
    rip = Region('ipad0', DATA + 0x10000, 32, writable=False, secret=True)
    rop = Region('opad0', DATA + 0x11000, 32, writable=False, secret=True)
    rtag = Region('tag0', DATA + 0x12000, taglen)
    st.regions = [jobs, stk, ro, tx, rmsg, rtag] + ([rip, rop] if hmac else [])
    for f, v in (('J_src', DATA), ('J_hoff', hoff), ('J_hlen', length), ('J_tag', rtag.base), ('J_taglen', taglen), ('J_ipad', rip.base if hmac else 0), ('J_opad', rop.base if hmac else 0)):
        for k in range(8):
            jobs.bytes[O[f] + k] = BitVecVal((v >> (8 * k)) & 0xff, 8)
    snap = {r.name: r.clone() for r in st.regions}
    stat0 = rd(jobs, O['J_status'], 4)
    F = uf('sm3')

    def update_stub(E_, s, target):
        n = conc(simp(s.r[2]))
        dp, pp = conc(simp(s.r[7])), conc(simp(s.r[6]))
        if n is None or dp is None or pp is None or n > 4096:
            raise Unsupported('sm3_base_update called with non-concrete arguments')
        stt = E_.load(s, bv(dp, 64), 32, None)
        for b in range(n):
            stt = F(stt, E_.load(s, bv(pp + 64 * b, 64), 64, None))
        E_.store(s, bv(dp, 64), 32, stt, None)
        for i in range(16):
            if i != 4 and i not in keep:
                s.r[i] = fresh(64, 'kclob')
        for i in range(32):
            s.v[i] = fresh(512, 'kvec')
        s.flags = None
    E.stubs[obj.syms['sm3_base_update'][1]] = update_stub
    rsp0 = STK + 4096 - 8 - 256
    st.r[4] = bv(rsp0, 64)
    for k in range(8):
        stk.bytes[rsp0 - STK + k] = BitVecVal((RET_SENTINEL >> (8 * k)) & 0xff, 8)
    st.r[7] = bv(JOBS, 64)
    try:
        fin = E.run(st, sym)
    except (Unsupported, BoundExceeded) as e:
        res.obl.append((name, None, 'inconclusive: ' + str(e)[:300], time.time() - t0))
        return res
    res.steps += E.insn_count
    iv = cat([BitVecVal(b, 8) for w in (0x7380166f, 0x4914b2b9, 0x172442d7, 0xda8a0600, 0xa96f30bc, 0x163138aa, 0xe38dee4d, 0xb0fb0e4e) for b in w.to_bytes(4, 'little')])
    for pi, f in enumerate(fin):
        R = {r.name: r for r in f.regions}
        pre = name + ' path %d/%d ' % (pi + 1, len(fin))
        msg = [snap['msg0'].get(k) for k in range(length)] if sabotage != 'shrink' else [snap['msg0'].get(k) for k in range(length - 1)] + [BitVecVal(0, 8)]
        ipad = [snap['ipad0'].get(k) for k in range(32)] if hmac else None
        opad = [snap['opad0'].get(k) for k in range(32)] if hmac else None
        if sabotage == 'oracle' and hmac:
            ipad, opad = opad, ipad
        exp, chain = spec(hmac, msg, ipad, opad, iv, taglen)
        got = [R['tag0'].get(k) for k in range(taglen)]
        if same_bytes(got, exp):
            r = unsat
        else:
            r, m = E.check(f, Or(*[g != e for g, e in zip(got, exp)]))
        res.obl.append((pre + 'C02 tag == leading %d bytes of %sSM3 over the uninterpreted compression for all message%s bytes' % (taglen, 'HMAC-' if hmac else '', '/ipad/opad' if hmac else ''),
                        (True if r == unsat else (False if r == sat else None)), str(r), 0))
        if r == sat:
            bad = [k for k in range(taglen) if not is_true(simplify(got[k] == exp[k]))]
            res.viol.append(('C02:%s:tag' % name, 'tag bytes %s differ from the leading %d bytes of the %sSM3 value (message length %d)' % (bad[:8], taglen, 'HMAC-' if hmac else '', length)))
        ret = conc(simp(f.r[0]))
        stn = rd(R['jobs'], O['J_status'], 4)
        r2, m = E.check(f, stn != (stat0 | 2))
        ok = ret == JOBS and r2 == unsat
        res.obl.append((pre + 'C14 returns the job, status == previous | COMPLETED_AUTH, descriptor otherwise unwritten', ok and all(O['J_status'] <= o < O['J_status'] + 4 for o in R['jobs'].written), str(sorted(R['jobs'].written))[:80], 0))
        if not ok or not all(O['J_status'] <= o < O['J_status'] + 4 for o in R['jobs'].written):
            res.viol.append(('C14:%s' % name, 'job not returned / status not previous|COMPLETED_AUTH / descriptor bytes written: %s' % sorted(R['jobs'].written)[:12]))
        ok = not f.faults
        res.obl.append((pre + 'C07 every access inside the exact-size message / ipad / opad / tag objects and the stack', ok, str(f.faults[:3]), 0))
        if not ok:
            res.viol.append(('C07:%s' % name, 'access outside the caller objects: %s' % (['%s %s(+%d bytes) at .text+%x' % (x[0], x[4], x[2], x[3] or 0) for x in f.faults[:3]],)))
        if safe_data or sabotage == 'nosafe':
            inner = [simplify(Extract(8 * k + 7, 8 * k, s_)) for s_ in chain for k in range(32)]

            def dirty(term):
                if is_bv_value(term):
                    return False
                if raw_secret(term):
                    return True
                if 'compress_' not in term.sexpr():
                    return False
                if not hmac:
                    return False
                if term.size() != 8:
                    return any(dirty(simplify(Extract(8 * k + 7, 8 * k, term))) for k in range(term.size() // 8))
                return any(is_true(simplify(term == fb)) for fb in inner)
            leaks = []
            for i in range(32):
                if dirty(f.v[i]):
                    leaks.append('zmm%d' % i)
            sr = R['stack']
            for o in sorted(sr.written):
                if o < rsp0 - STK and dirty(sr.get(o)):
                    leaks.append('stack%+d' % (o - (rsp0 - STK)))
                    break
            res.obl.append((pre + 'C13 no message/key byte (HMAC: nor a keyed inner chaining value) left in vector registers or the stack frame', not leaks, ','.join(leaks[:8]), 0))
            if leaks:
                res.viol.append(('C13:%s' % name, 'residue after return: %s' % ','.join(leaks[:10])))
    res.queries += E.nq
    res.solver_s += E.tq
    return res


def _task(a):
    import traceback
    hmac, length, taglen, kw = a
    from vlib.core import Ctx
    c = Ctx('asmx_worker', 'quick', 0)
    try:
        r = run_one(c, hmac, length, taglen, **kw)
        return dict(obl=r.obl, viol=r.viol, steps=r.steps, queries=r.queries, solver_s=r.solver_s, src=r.src, args=a)
    except Exception as e:
        return dict(obl=[('sm3 %s' % (a,), None, 'engine error: ' + traceback.format_exc()[-400:], 0)], viol=[], steps=0, queries=0, solver_s=0, src={}, args=a)
    finally:
        c.cleanup()


def run_family(ctx, prop):
    from multiprocessing import Pool
    quick = ctx.quick()
    lens = [1, 55, 56, 63, 64, 65, 119, 120, 200] if quick else [1, 2, 31, 54, 55, 56, 57, 63, 64, 65, 100, 118, 119, 120, 121, 127, 128, 129, 183, 184, 200, 256, 1000]
    tags = [1, 4, 12, 15, 16, 17, 20, 24, 31, 32] if quick else list(range(1, 33))
    tasks = []
    for hm in (0, 1):
        for i, L in enumerate(lens):
            for j, T in enumerate(tags):
                if quick and (i + j) % 3 and not (L in (55, 64) or T in (17, 31, 32)):
                    continue          # quick: a covering subset of the (length, tag length) grid; thorough: all of it
                tasks.append((hm, L, T, {}))
        tasks.append((hm, 70, 20, dict(hoff=3)))
    if prop == 'C02':
        tasks.append((1, 70, 32, dict(sabotage='oracle')))
    if prop == 'C07':
        tasks.append((1, 70, 32, dict(sabotage='shrink')))
    if prop == 'C13':
        tasks.append((1, 70, 32, dict(safe_data=False, sabotage='nosafe')))
    want = {'C02': (' C02 ',), 'C07': (' C07 ',), 'C13': (' C13 ',), 'C14': (' C14 ',)}[prop]
    ctx.bounds['sm3_routines'] = 'sm3_msg_submit_sse / sm3_hmac_submit_sse (real machine code), message lengths %s, tag lengths %s, offset 3; message/ipad/opad bytes symbolic' % (lens, tags)
    ctx.assume('SM3: sm3_base_update is replaced by its contract (n folds of an uninterpreted compression over the 32-byte state; registers the real routine does not provably preserve are havoc\'d)')
    with Pool(min(NCPU, max(1, len(tasks)))) as pool:
        for r in pool.imap_unordered(_task, tasks):
            ctx.solver_s += r['solver_s']
            ctx.functions.update(r['src'])
            kw = r['args'][3]
            sab = kw.get('sabotage')
            if sab:
                pfx = {'oracle': 'C02', 'shrink': 'C07', 'nosafe': 'C13'}[sab]
                got = any(k.startswith(pfx) for k, t in r['viol'])
                ctx.add('WITNESS HMAC-SM3 run with %s must report a %s violation' % ({'oracle': 'ipad/opad swapped in the reference', 'shrink': 'a message object one byte short',
                                                                                   'nosafe': 'the routine assembled without -DSAFE_DATA'}[sab], pfx),
                        'violated' if got else 'discharged', 0, 'asmx', str(r['obl'][:1])[:200], expect='violated')
                continue
            for name, ok, detail, secs in r['obl']:
                if ok is not None and not any(w in name for w in want):
                    continue
                ctx.add(name, 'discharged' if ok else ('inconclusive' if ok is None else 'violated'), secs, 'asmx', detail)
            for key, text in r['viol']:
                if key.startswith(prop):
                    ctx.violation(key, text + ' (replay: props/asm_sm3.py run_one%s; native: replay_src/sm3_tag_replay.c compares every tag length 1..32 with the 32-byte value)' % (r['args'],))
