"""C08 — all implementation variants give bit-identical results; missing CPU features fail cleanly."""
from vlib.core import *
from props import asm_cbc, asm_kern, asm_keys

PROP = 'C08'


def run(ctx):
    # (1) variant selection and clean failure on an arbitrary CPU (CBMC on the real init wrappers + cpu_feature_adjust)
    for f in ('lib/sse_t1/mb_mgr_sse.c', 'lib/avx2_t1/mb_mgr_avx2.c', 'lib/avx512_t1/mb_mgr_avx512.c', 'lib/x86_64/mb_mgr_auto.c', 'lib/x86_64/cpu_feature.c'):
        ctx.note_source(f)
    jobs = [('initgate.c', 'init_mb_mgr_%s on an ARBITRARY CPU and prior manager: the documented variant is bound iff its feature set is present; otherwise IMB_ERR_MISSING_CPUFLAGS_INIT_MGR '
             'and NO variant code / self-test is executed; SHANI/GFNI-off flags clear exactly those bits' % n, 30, ['-DWHICH=%d' % w]) for w, n in ((1, 'sse'), (2, 'avx2'), (3, 'avx512'), (4, 'auto'))]
    for r in pool_map(lambda j: simple_cbmc(ctx, j[0], j[1], j[2], defs=j[3], timeout=1200), jobs):
        if isinstance(r, Exception):
            ctx.inconclusive.append(str(r))
    ctx.assume('cpu_feature_detect() returns an arbitrary but fixed feature word; the nine per-variant init functions and self_test() are recording stubs')
    # (2) bit-identical results: units proved equal to the SAME specification term in two variants are equal to each other
    ctx.assume('variant equality is established through a common specification: each variant\'s machine code is shown equal to the same mode/key-schedule term over shared '
               'uninterpreted AES primitives, hence the variants are equal to each other for all keys and data within the bounds')
    asm_kern.run_family(ctx, 'C01')
    asm_cbc.run_family(ctx, ('C01',), 'C01')
    asm_keys.run_family(ctx, 'C11')
    ctx.outside += ['AVX512/VAES kernels (EVEX masked forms are not decoded exactly in this session) and all non-AES algorithm families', 'status/error-code equality across variants beyond '
                    'the shared C code (the job/burst C layer is the same text in all nine variant files; its dispatch tables are compared per variant in C06)']
    ctx.samples.append('aes_cntr_192_sse and aes_cntr_192_avx both equal CTR over UF-AES for every key, counter (incl. 32-bit wrap) and message of the listed lengths => identical outputs')


if __name__ == '__main__':
    main_wrapper(PROP, run)
