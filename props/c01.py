"""C01 (asmx precise harnesses; see DESIGN.md §4 C01)."""
from vlib.core import *
from props import asm_units

PROP = 'C01'


def run(ctx):
    asm_units.run_all(ctx, PROP)


if __name__ == '__main__':
    main_wrapper(PROP, run)
