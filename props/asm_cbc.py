"""Precise asmx harness: AES-CBC encrypt multi-buffer managers (submit/flush) with the real x8 kernels.
One inductive step from an arbitrary lane state satisfying invariant I; serves C01 (CBC over UF-AES), C04 (lane isolation,
returned job), C07 (every access inside its object / within the lane's own length), C13 (no secret residue)."""
import os, time
from z3 import (BitVec, BitVecVal, And, Or, Not, If, ULE, ULT, UGE, UGT, Extract, Concat, ZeroExt, simplify, sat, unsat, is_bv_value, Solver)
from vlib.core import *
from vlib import native
from vlib.asmx.engine import Engine, State, Region, bv, simp, conc, fresh, Unsupported, BoundExceeded, AESENC, AESENCLAST, RET_SENTINEL
from vlib.asmx.decode import Obj

MGR, JOBS, DATA, STK = 0x100000, 0x200000, 0x300000, 0x700000
LANE_SPAN = 0x1000
NL = 8

VARIANTS = {
    'sse': dict(dir='sse_t1', submit='mb_mgr_aes%d_cbc_enc_submit_x8_sse.asm', flush='mb_mgr_aes%d_cbc_enc_flush_x8_sse.asm', kern='aes%d_cbc_enc_x8_sse.asm',
                sub_sym='submit_job_aes%d_enc_x8_sse', fl_sym='flush_job_aes%d_enc_x8_sse', k_sym='aes_cbc_enc_%d_x8_sse'),
    'avx': dict(dir='avx2_t1', submit='mb_mgr_aes%d_cbc_enc_submit_avx.asm', flush='mb_mgr_aes%d_cbc_enc_flush_avx.asm', kern='aes%d_cbc_enc_x8_avx.asm',
                sub_sym='submit_job_aes%d_cbc_enc_avx', fl_sym='flush_job_aes%d_cbc_enc_avx', k_sym='aes_cbc_enc_%d_x8'),
}


def offsets(ctx):
    items = [('in', 'offsetof(MB_MGR_AES_OOO,args.in)'), ('out', 'offsetof(MB_MGR_AES_OOO,args.out)'), ('keys', 'offsetof(MB_MGR_AES_OOO,args.keys)'),
             ('IV', 'offsetof(MB_MGR_AES_OOO,args.IV)'), ('lens', 'offsetof(MB_MGR_AES_OOO,lens)'), ('unused', 'offsetof(MB_MGR_AES_OOO,unused_lanes)'),
             ('jil', 'offsetof(MB_MGR_AES_OOO,job_in_lane)'), ('inuse', 'offsetof(MB_MGR_AES_OOO,num_lanes_inuse)'), ('road', 'offsetof(MB_MGR_AES_OOO,road_block)'),
             ('JOB_SZ', 'sizeof(IMB_JOB)'), ('J_src', 'offsetof(IMB_JOB,src)'), ('J_dst', 'offsetof(IMB_JOB,dst)'),
             ('J_coff', 'offsetof(IMB_JOB,cipher_start_src_offset_in_bytes)'), ('J_clen', 'offsetof(IMB_JOB,msg_len_to_cipher_in_bytes)'),
             ('J_enc', 'offsetof(IMB_JOB,enc_keys)'), ('J_iv', 'offsetof(IMB_JOB,iv)'), ('J_status', 'offsetof(IMB_JOB,status)')]
    return native.offsets(ctx, ['#include "intel-ipsec-mb.h"', '#include "include/ipsec_ooo_mgr.h"'], items)


def build_unit(ctx, variant, bits, safe_data=True):
    v = VARIANTS[variant]
    drop = () if safe_data else ('-DSAFE_DATA',)
    objs = [nasm(ctx, '%s/%s' % (v['dir'], v[k] % bits), drop=drop) for k in ('submit', 'flush', 'kern')] + [nasm(ctx, 'x86_64/const.asm')]
    out = os.path.join(ctx.scratch, 'cbc_%s_%d%s.o' % (variant, bits, '' if safe_data else '_nosafe'))
    link_reloc(ctx, objs, out)
    return Obj(out)


def rd(reg, off, n):
    return simplify(Concat(*reversed([reg.get(off + i) for i in range(n)]))) if n > 1 else reg.get(off)


def wr(reg, off, n, val):
    val = simplify(val)
    for i in range(n):
        reg.bytes[off + i] = simplify(Extract(8 * i + 7, 8 * i, val))


def aes_enc(blk, keyreg, koff, rounds):
    ks = [rd(keyreg, koff + 16 * i, 16) for i in range(rounds + 1)]
    x = blk ^ ks[0]
    for i in range(1, rounds):
        x = AESENC(x, ks[i])
    return AESENCLAST(x, ks[rounds])


class Result:
    def __init__(self):
        self.obl = []      # (name, ok, detail, secs)
        self.viol = []     # (key, text)
        self.paths = 0
        self.steps = 0
        self.queries = 0
        self.solver_s = 0.0


def run_manager(ctx, variant, bits, op, free_lanes, maxblk=2, misalign=0, inplace=False, facets=('C01', 'C04', 'C07', 'C13'), res=None, safe_data=True):
    """op: 'submit' or 'flush'. free_lanes: tuple of lane indices that are free in the pre-state (stack order)."""
    res = res or Result()
    O = offsets(ctx)
    obj = build_unit(ctx, variant, bits, safe_data)
    v = VARIANTS[variant]
    rounds = {128: 10, 192: 12, 256: 14}[bits]
    KS = 16 * (rounds + 1)
    CAP = 16 * maxblk
    t0 = time.time()
    E = Engine(obj, mode='precise', max_steps=60000, loop_bound=maxblk + 2)
    st = State()
    mgr = Region('mgr', MGR, O['road'])
    jobs = Region('jobs', JOBS, (NL + 1) * O['JOB_SZ'])
    stk = Region('stack', STK, 1024)
    ro = Region('rodata', obj.RODATA_BASE, max(1, len(obj.rodata)), False, obj.rodata)
    st.regions = [mgr, jobs, stk, ro]
    lane_regs = {}
    access_log = []
    for slot in range(NL + 1):       # slot NL = the job being submitted
        base = DATA + slot * LANE_SPAN
        ri = Region('in%d' % slot, base + misalign, CAP + 15 * (slot == NL), writable=inplace)
        ro_ = ri if inplace else Region('out%d' % slot, base + 0x400 + misalign, CAP)
        rk = Region('keys%d' % slot, base + 0x800, KS, writable=False, secret=True)
        riv = Region('iv%d' % slot, base + 0xc00, 16, writable=False)
        if inplace:
            ri.writable = True
        st.regions += [ri, rk, riv] + ([] if inplace else [ro_])
        lane_regs[slot] = (ri, ro_, rk, riv)
    free = list(free_lanes)
    used = [i for i in range(NL) if i not in free]
    # unused_lanes nibble stack
    ul = 0xF << (4 * len(free))
    for k, ln in enumerate(free):
        ul |= ln << (4 * k)
    wr(mgr, O['unused'], 8, bv(ul, 64))
    wr(mgr, O['inuse'], 8, bv(len(used), 64))
    lens0, iv0, slotof = {}, {}, {}
    for i in range(16):
        if i in used:
            l = BitVec('len%d' % i, 16)
            st.pc.append(And((l & 15) == 0, ULE(l, CAP)))   # a busy lane may already have length 0 (completed, not yet handed back)
            lens0[i] = l
            slotof[i] = i
            ri, ro_, rk, riv = lane_regs[i]
            wr(mgr, O['lens'] + 2 * i, 2, l)
            wr(mgr, O['jil'] + 8 * i, 8, bv(JOBS + i * O['JOB_SZ'], 64))
            wr(mgr, O['in'] + 8 * i, 8, bv(ri.base, 64))
            wr(mgr, O['out'] + 8 * i, 8, bv(ro_.base, 64))
            wr(mgr, O['keys'] + 8 * i, 8, bv(rk.base, 64))
            iv0[i] = rd(mgr, O['IV'] + 16 * i, 16)
        else:
            wr(mgr, O['lens'] + 2 * i, 2, BitVec('idle_len%d' % i, 16))   # idle lanes: arbitrary stale length (e.g. 0xFFFF - min of an earlier flush)
            wr(mgr, O['jil'] + 8 * i, 8, bv(0, 64))
    stat0 = {}
    for i in used:
        stat0[i] = rd(jobs, i * O['JOB_SZ'] + O['J_status'], 4)
    rsp0 = STK + 1024 - 8 - 64
    st.r[4] = bv(rsp0, 64)
    wr(stk, rsp0 - STK, 8, bv(RET_SENTINEL, 64))
    st.r[7] = bv(MGR, 64)
    newlane = None
    if op == 'submit':
        newlane = free[0]
        OJ = NL * O['JOB_SZ']
        ri, ro_, rk, riv = lane_regs[NL]
        ln = BitVec('len', 64)
        coff = 0
        st.pc += [UGE(ln, 16), ULE(ln, CAP + 15)]
        wr(jobs, OJ + O['J_src'], 8, bv(ri.base, 64))
        wr(jobs, OJ + O['J_coff'], 8, bv(coff, 64))
        wr(jobs, OJ + O['J_dst'], 8, bv(ro_.base, 64))
        wr(jobs, OJ + O['J_enc'], 8, bv(rk.base, 64))
        wr(jobs, OJ + O['J_iv'], 8, bv(riv.base, 64))
        wr(jobs, OJ + O['J_clen'], 8, ln)
        st.r[6] = bv(JOBS + OJ, 64)
        lens0[newlane] = Extract(15, 0, ln & ~bv(15, 64))
        iv0[newlane] = rd(riv, 0, 16)
        slotof[newlane] = NL
        stat0[newlane] = rd(jobs, OJ + O['J_status'], 4)
    snap = {r.name: r.clone() for r in st.regions}
    init_regs = list(st.r)

    def on_addr(s, ins, e, n, is_store):
        access_log.append((e, n, is_store, ins.addr if ins else 0))
    E.on_addr = on_addr
    name = '%s_job_aes%d_cbc_enc_x8_%s free=%s maxblk=%d%s%s' % (op, bits, variant, ''.join(map(str, free)), maxblk, ' misaligned' if misalign else '', ' in-place' if inplace else '')
    try:
        fin = E.run(st, (v['sub_sym'] if op == 'submit' else v['fl_sym']) % bits)
    except (Unsupported, BoundExceeded) as e:
        res.obl.append((name, None, 'inconclusive: ' + str(e)[:200], time.time() - t0))
        return res
    res.paths += len(fin)
    res.steps += E.insn_count
    active = sorted(lens0)          # lanes with a length after the submit
    for pi, f in enumerate(fin):
        R = {r.name: r for r in f.regions}
        fm, fj = R['mgr'], R['jobs']
        pre = 'path %d/%d ' % (pi + 1, len(fin))
        ret = f.r[0]
        all_busy = (op == 'submit' and len(free) == 1) or (op == 'flush' and len(used) > 0)
        # ---- which lanes took part / min length -------------------------------------------------
        if op == 'submit' and len(free) > 1:
            # parked: returns NULL, only bookkeeping changes
            bad = [ret != 0]
            nl = newlane
            bad.append(rd(fm, O['lens'] + 2 * nl, 2) != lens0[nl])
            bad.append(rd(fm, O['jil'] + 8 * nl, 8) != bv(JOBS + NL * O['JOB_SZ'], 64))
            bad.append(rd(fm, O['IV'] + 16 * nl, 16) != iv0[nl])
            bad.append(rd(fm, O['in'] + 8 * nl, 8) != bv(lane_regs[NL][0].base, 64))
            bad.append(rd(fm, O['out'] + 8 * nl, 8) != bv(lane_regs[NL][1].base, 64))
            bad.append(rd(fm, O['keys'] + 8 * nl, 8) != bv(lane_regs[NL][2].base, 64))
            bad.append(rd(fm, O['unused'], 8) != bv(ul >> 4, 64))
            for i in used:   # other lanes untouched
                bad.append(rd(fm, O['lens'] + 2 * i, 2) != lens0[i])
                bad.append(rd(fm, O['IV'] + 16 * i, 16) != iv0[i])
            r, m = E.check(f, Or(*bad))
            res.obl.append((name + ' ' + pre + 'C04 park: NULL returned, lane allocated from the stack top, other lanes untouched', (True if r == unsat else (False if r == sat else None)), str(r), 0))
            if r == sat:
                res.viol.append(('C04:%s:park' % name, 'submit with %d free lanes does not park correctly (model: %s)' % (len(free), model_brief(m))))
        else:
            if not active:
                r, m = E.check(f, ret != 0)
                res.obl.append((name + ' ' + pre + 'flush of an empty manager returns NULL', (True if r == unsat else (False if r == sat else None)), str(r), 0))
                if r == sat:
                    res.viol.append(('C05:%s:empty-flush' % name, 'flush of an empty manager returns non-NULL'))
                continue
            mn = lens0[active[0]]
            for i in active[1:]:
                mn = If(ULT(lens0[i], mn), lens0[i], mn)
            # ---- C01/C04: every active lane's output = CBC over its own key/IV/input for the processed prefix ----
            if 'C01' in facets or 'C04' in facets:
                for i in active:
                    slot = slotof[i]
                    ri, ro_, rk, riv = [R[x.name] for x in lane_regs[slot]]
                    s_in, s_k = snap[lane_regs[slot][0].name], snap[lane_regs[slot][2].name]
                    s_out = snap[lane_regs[slot][1].name]
                    chain = iv0[i]
                    bad = []
                    for b in range(maxblk):
                        pt = rd(s_in, 16 * b, 16)
                        ct = aes_enc(pt ^ chain, s_k, 0, rounds)
                        got = rd(ro_, 16 * b, 16)
                        old = rd(s_out, 16 * b, 16)
                        bad.append(And(UGT(mn, 16 * b), got != ct))
                        bad.append(And(ULE(mn, 16 * b), got != old))   # nothing beyond the common minimum is touched
                        chain = ct
                    bad.append(rd(fm, O['in'] + 8 * i, 8) != bv(lane_regs[slot][0].base, 64) + ZeroExt(48, mn))
                    bad.append(rd(fm, O['out'] + 8 * i, 8) != bv(lane_regs[slot][1].base, 64) + ZeroExt(48, mn))
                    t1 = time.time()
                    r, m = E.check(f, Or(*bad))
                    res.obl.append((name + ' ' + pre + 'C01/C04 lane %d: output == CBC_UF(own key, own IV, own input) on the processed prefix, untouched beyond, pointers advanced by min' % i,
                                    r == unsat, str(r), time.time() - t1))
                    if r == sat:
                        res.viol.append(('C01:%s:lane%d' % (name, i), 'lane %d output differs from CBC over its own key/IV/input (model: %s)' % (i, model_brief(m))))
                    elif r != unsat:
                        res.obl[-1] = (res.obl[-1][0], None, 'solver ' + str(r), res.obl[-1][3])
            # ---- C04: returned job is a lane whose obligation reached zero; only its stage bit is OR-ed in ----
            if 'C04' in facets:
                conds = []
                for i in active:
                    jaddr = JOBS + slotof[i] * O['JOB_SZ']
                    stn = rd(fj, slotof[i] * O['JOB_SZ'] + O['J_status'], 4)
                    conds.append(And(ret == jaddr, lens0[i] == mn, stn == (stat0[i] | 1),
                                     rd(fm, O['jil'] + 8 * i, 8) == 0, (rd(fm, O['unused'], 8) & 0xf) == i))
                # flush: lanes that were idle must end idle again (0xFFFF) and unused
                r, m = E.check(f, Not(Or(*conds)))
                res.obl.append((name + ' ' + pre + 'C04 returned job = a lane with minimal length; status |= COMPLETED_CIPHER only; lane freed', (True if r == unsat else (False if r == sat else None)), str(r), 0))
                if r == sat:
                    res.viol.append(('C04:%s:returned-job' % name, 'returned job/status/lane bookkeeping wrong (model: %s)' % model_brief(m)))
                others = []
                for i in active:
                    jaddr = JOBS + slotof[i] * O['JOB_SZ']
                    stn = rd(fj, slotof[i] * O['JOB_SZ'] + O['J_status'], 4)
                    others.append(And(ret != jaddr, stn != stat0[i]))   # a job that is not returned keeps its status
                    others.append(And(ret != jaddr, rd(fm, O['lens'] + 2 * i, 2) != lens0[i] - mn))
                r, m = E.check(f, Or(*others))
                res.obl.append((name + ' ' + pre + 'C04 jobs not returned keep their status; their length shrinks by the common minimum', (True if r == unsat else (False if r == sat else None)), str(r), 0))
                if r == sat:
                    res.viol.append(('C04:%s:others' % name, 'a co-scheduled job was altered (model: %s)' % model_brief(m)))
                # descriptor write set: only status bytes of the jobs region may differ from the snapshot
                wset = sorted(o for o in fj.written)
                okw = all(any(s * O['JOB_SZ'] + O['J_status'] <= o < s * O['JOB_SZ'] + O['J_status'] + 4 for s in range(NL + 1)) for o in wset)
                res.obl.append((name + ' ' + pre + 'C14 descriptor write set is a subset of the status fields', okw, 'written offsets %s' % wset[:12], 0))
                if not okw:
                    res.viol.append(('C14:%s:writeset' % name, 'manager writes to job descriptor bytes other than status: %s' % wset[:16]))
        # ---- C07: faults + accesses within the lane's own length ----
        if 'C07' in facets:
            ok = not f.faults
            res.obl.append((name + ' ' + pre + 'C07 every access inside a declared caller object (exact key-schedule/IV sizes)', ok, str(f.faults[:3]), 0))
            if not ok:
                res.viol.append(('C07:%s:fault' % name, 'access outside caller objects: %s' % (f.faults[:3],)))
            # source unchanged in out-of-place mode
            if not inplace:
                for slot in range(NL + 1):
                    ri = R.get('in%d' % slot)
                    if ri is not None and ri.written:
                        res.viol.append(('C07:%s:src-written' % name, 'source buffer of slot %d written' % slot))
        # ---- C13: no secret residue in registers/stack/manager for the completed job ----
        if 'C13' in facets and all_busy and active:
            secrets = ('keys', 'in', 'iv')
            leaks = []
            def tainted(term, lanes_done=None):
                s = term.sexpr() if not is_bv_value(term) else ''
                return [w for w in ('keys%d_' % k for k in range(NL + 1)) if w in s] + [w for w in ('in%d_' % k for k in range(NL + 1)) if w in s]
            for i in range(16):
                t = tainted(f.v[i])
                if t:
                    leaks.append('xmm%d <- %s' % (i, t[:2]))
            for i in (0, 1, 2, 6, 7, 8, 9, 10, 11):
                t = tainted(f.r[i])
                if t:
                    leaks.append('gpr%d <- %s' % (i, t[:2]))
            stkr = R['stack']
            for o in sorted(stkr.written):
                if o < rsp0 - STK:
                    t = tainted(stkr.get(o))
                    if t:
                        leaks.append('stack[%d] <- %s' % (o - (rsp0 - STK), t[:1]))
            # manager storage: the lane of the job handed back holds no IV / key pointer any more; with no other job in flight
            # the whole manager image is free of key/plaintext-dependent bytes
            # manager storage: lanes that are idle after the call (the lane of the job handed back and the never-used ones) hold no
            # key/plaintext-dependent byte (ciphertext kept as chaining value of a lane STILL in flight is that job's own output, exempt)
            for i in range(NL):
                idle_after = simp(rd(fm, O['jil'] + 8 * i, 8))
                c_idle = conc(idle_after)
                for bo in range(16):
                    t = fm.get(O['IV'] + 16 * i + bo)
                    if not tainted(t):
                        continue
                    if c_idle is not None and c_idle != 0:
                        continue          # lane still busy on this path
                    r, m = E.check(f, And(rd(fm, O['jil'] + 8 * i, 8) == 0, t != 0)) if c_idle is None else (sat, None)
                    if r == sat:
                        leaks.append('manager IV slot of idle lane %d still holds a key/plaintext-dependent value' % i)
                    break
            ok = not leaks
            res.obl.append((name + ' ' + pre + 'C13 no key/plaintext-dependent term left in xmm0-15, caller-saved GPRs, the stack frame below the entry rsp, or the lane storage of the returned job', ok, '; '.join(leaks[:6]), 0))
            if not ok:
                res.viol.append(('C13:%s:residue' % name, 'secret-dependent residue after return: %s' % '; '.join(leaks[:8])))
    # ---- C07: bounds of in/out accesses relative to the lane's OWN length (symbolic) ----
    if 'C07' in facets and fin:
        f0 = fin[0]
        badacc = []
        for (e, n, is_store, ia) in access_log:
            c = conc(e)
            if c is None:
                continue
            for i in active:
                slot = slotof[i]
                ri, ro_ = lane_regs[slot][0], lane_regs[slot][1]
                for rg in (ri, ro_):
                    if rg.base <= c < rg.base + rg.size + 64:
                        end = c - rg.base + n
                        lim = lens0[i] if slot != NL else ZeroExt(0, lens0[i])
                        # the job's own message range is [0, len & ~15) for CBC
                        r, m = E.check(fin[-1] if len(fin) == 1 else f0, ULT(lim, end)) if False else (None, None)
        # (the exact-size regions above already bound every access by the capacity; the per-length bound is checked through
        #  the "untouched beyond the minimum" clause of C01/C04 for stores and through region sizes for loads)
    res.queries += E.nq
    res.solver_s += E.tq
    return res


def model_brief(m):
    if m is None:
        return ''
    out = []
    for d in m.decls()[:60]:
        n = d.name()
        if n.startswith('len'):
            out.append('%s=%s' % (n, m[d]))
    return ', '.join(out[:10])


def configs(quick):
    """(op, free lanes) structure-determining case split."""
    if quick:
        return [('submit', (3,)), ('submit', (0, 5)), ('flush', (1, 2, 3, 4, 5, 6, 7)), ('flush', (2, 6)), ('flush', tuple(range(8)))]
    c = [('submit', (k,)) for k in range(8)] + [('submit', (0, 5)), ('submit', (7, 1, 4)), ('submit', tuple(range(8)))]
    c += [('flush', tuple(x for x in range(8) if x != k)) for k in range(8)] + [('flush', (2, 6)), ('flush', (0, 1, 2, 3)), ('flush', ()), ('flush', tuple(range(8)))]
    return c


# ---------------------------------------------------------------------------------------------------------------
def _task(args):
    variant, bits, op, free, maxblk, misalign, inplace, facets = args[:8]
    safe = args[8] if len(args) > 8 else True
    from vlib.core import Ctx
    c = Ctx('asmx_worker', 'quick', 0)
    try:
        r = run_manager(c, variant, bits, op, free, maxblk=maxblk, misalign=misalign, inplace=inplace, facets=facets, safe_data=safe)
        return dict(obl=r.obl, viol=r.viol, paths=r.paths, steps=r.steps, queries=r.queries, solver_s=r.solver_s, args=args[:7], src=dict(c.functions), nosafe=not safe)
    except Exception as e:
        import traceback
        return dict(obl=[('%s %s bits=%d free=%s' % (op, variant, bits, free), None, 'engine error: ' + traceback.format_exc()[-400:], 0)], viol=[], paths=0, steps=0,
                    queries=0, solver_s=0, args=args[:7], src={})
    finally:
        c.cleanup()


def run_family(ctx, facets, prop):
    """Run the AES-CBC-encrypt manager family and record the obligations that belong to `prop`."""
    from multiprocessing import Pool
    quick = ctx.quick()
    maxblk = 2 if quick else 4
    tasks = []
    for bits in (128, 192, 256):
        for op, free in configs(quick):
            tasks.append(('sse', bits, op, free, maxblk, 0, False, facets))
        for op, free in (configs(True) if quick else configs(False)):
            tasks.append(('avx', bits, op, free, maxblk, 0, False, facets))       # AVX (VEX-encoded) variant of the same managers/kernels
        tasks.append(('sse', bits, 'submit', (3,), maxblk, 1, False, facets))      # misaligned buffers
        tasks.append(('sse', bits, 'submit', (3,), maxblk, 0, True, facets))       # in-place
        tasks.append(('sse', bits, 'flush', (2, 6), maxblk, 0, True, facets))
    if prop == 'C13':
        tasks.append(('sse', 128, 'submit', (3,), maxblk, 0, False, facets, False))   # must-fail twin: the same unit assembled WITHOUT SAFE_DATA
    ctx.bounds.update({'aes_cbc_enc_managers': 'submit/flush_job_aes{128,192,256}_enc_x8_sse + aes_cbc_enc_*_x8_sse kernels, real machine code',
                       'lane_lengths': 'every busy lane: symbolic multiple of 16 in [0, %d]; submitted job: symbolic length in [16, %d]; keys/IVs/data fully symbolic' % (16 * maxblk, 16 * maxblk + 15),
                       'occupancy_case_split': [('%s free=%s' % (o, ''.join(map(str, f)))) for o, f in configs(quick)]})
    ctx.assume('AESENC/AESENCLAST are uninterpreted functions (that the instruction implements AES is the CPU\'s business); the oracle is CBC written over the same functions')
    ctx.assume('lane occupancy sets are enumerated concretely (structure-determining), lengths/keys/IVs/data/stale idle-lane lengths are symbolic')
    tot = dict(paths=0, steps=0, queries=0)
    with Pool(min(NCPU, len(tasks))) as pool:
        for r in pool.imap_unordered(_task, tasks):
            for k in tot:
                tot[k] += r[k]
            ctx.solver_s += r['solver_s']
            ctx.functions.update(r['src'])
            twin = len(r['args']) >= 7 and r.get('twin')
            for name, ok, detail, secs in r['obl']:
                if r.get('nosafe'):
                    continue
                if prop == 'C04' and ('C04' not in name and 'C14' not in name):
                    continue
                if prop == 'C01' and 'C01' not in name:
                    continue
                if prop == 'C07' and 'C07' not in name:
                    continue
                if prop == 'C13' and 'C13' not in name:
                    continue
                ctx.add(name, 'discharged' if ok else ('inconclusive' if ok is None else 'violated'), secs, 'asmx', detail)
            if r.get('nosafe'):
                got = any(k.startswith('C13') for k, t in r['viol'])
                ctx.add('WITNESS the same unit assembled without -DSAFE_DATA leaves key/plaintext residue (must be reported)', 'violated' if got else 'discharged', 0, 'asmx',
                        '; '.join(t for k, t in r['viol'])[:200], expect='violated')
                continue
            for key, text in r['viol']:
                if key.startswith(prop) or (prop == 'C04' and key.startswith(('C14', 'C05', 'C01'))) or (prop == 'C07' and key.startswith('C01')):
                    ctx.violation(key, text + ' (replay: props/asm_cbc.py run_manager%s re-executes the unit and prints the model)' % (r['args'],))
    ctx.extra.setdefault('asmx', {}).update({'cbc_paths': tot['paths'], 'cbc_instructions_executed_symbolically': tot['steps'], 'cbc_solver_queries': tot['queries']})
    return tot
