"""C12 — invalid jobs rejected untouched with the right error; valid ones accepted."""
import os, sys, re
from vlib.core import *
from vlib import native
from tools.trace_summary import summarise

PROP = 'C12'

SLICES = [(0, 3), (4, 7), (8, 11), (12, 15), (16, 19), (20, 23), (24, 27), (28, 31), (32, 0xffffffff)]

PTR_FIELDS = ['enc_keys', 'dec_keys', 'src', 'dst', 'iv', 'auth_tag_output', 'u.XCBC._k1_expanded', 'u.XCBC._k2', 'u.XCBC._k3',
              'cipher_fields.CBCS.next_iv', 'cipher_func', 'hash_func']
NUM_FIELDS = ['key_len_in_bytes', 'cipher_start_src_offset_in_bytes', 'msg_len_to_cipher_in_bytes', 'hash_start_src_offset_in_bytes',
              'msg_len_to_hash_in_bytes', 'iv_len_in_bytes', 'auth_tag_output_len_in_bytes', 'cipher_mode', 'cipher_direction',
              'hash_alg', 'chain_order', 'sgl_state']


def enum_values(ctx):
    """name -> value for the enums of intel-ipsec-mb.h (via a tiny compiled printer)."""
    return native.enum_table(ctx)


def replay_job(ctx, vals, viol, name):
    """Replay a validator counterexample through IMB_SUBMIT_JOB on a library built from the current tree (ghost g_* variables of the harness)."""
    def num(k):
        v = vals.get(k)
        if v is None:
            return None
        return re.sub(r'[uU]?[lL]*$', '', v.strip().split()[0])
    fields = {'key_len_in_bytes': 'g_key_len', 'msg_len_to_cipher_in_bytes': 'g_clen', 'msg_len_to_hash_in_bytes': 'g_hlen', 'cipher_start_src_offset_in_bytes': 'g_coff',
              'hash_start_src_offset_in_bytes': 'g_hoff', 'iv_len_in_bytes': 'g_ivlen', 'auth_tag_output_len_in_bytes': 'g_taglen', 'cipher_mode': 'g_mode',
              'cipher_direction': 'g_dir', 'hash_alg': 'g_hash', 'chain_order': 'g_order', 'sgl_state': 'g_sgl'}
    args = []
    for f, g in fields.items():
        v = num(g)
        if v is None:
            return None, 'trace lacks ' + g
        args.append('%s=%s' % (f, v))
    ptrs = num('g_ptrs')
    if ptrs is None:
        return None, 'trace lacks g_ptrs'
    ptrs = int(ptrs)
    for i, f in enumerate(['src', 'dst', 'iv', 'enc_keys', 'dec_keys', 'auth_tag_output', 'u.XCBC._k1_expanded', 'u.XCBC._k2', 'u.XCBC._k3', 'cipher_fields.CBCS.next_iv',
                           'cipher_func', 'hash_func']):
        args.append('%s=%d' % (f, (ptrs >> i) & 1))
    out = native.run_replay(ctx, 'job_replay.c', ['sse'] + args)
    if out is None:
        return None, 'replay did not run'
    m = re.search(r'status=(-?\d+) errno=(\d+)', out)
    if not m:
        return 'crash', out[-200:]
    status, errno_ = int(m.group(1)), int(m.group(2))
    rejected = status == 4
    return ('rejected' if rejected else 'accepted'), 'status=%d errno=%d args=%s' % (status, errno_, ' '.join(args))


def run(ctx):
    ctx.bounds.update({'descriptor': 'fully symbolic IMB_JOB (every scalar field any 64/32-bit value; each pointer NULL or valid)',
                       'sgl_segments': '<= 2 (IMB_SGL_ALL)', 'cbmc_unwind': 4,
                       'case_split': 'cipher_mode sliced into %d ranges covering all 2^32 values' % len(SLICES)})
    ctx.assume('pointers are NULL or point to a valid object (the validator compares them with NULL only; DES3 key triple, '
               'SGL segment array (<=2) and the PON XGEM header bytes are modelled as real objects)')
    ctx.assume('catalogue numbers are literals from the documentation, not the library macros')
    ctx.outside.append('SGL descriptors with more than 2 segments; direct-API wrappers other than those listed in functions_encoded')
    for f in ('lib/include/mb_mgr_job_check.h', 'lib/include/error.h', 'lib/intel-ipsec-mb.h'):
        ctx.note_source(f)
    h = os.path.join(VERIF, 'cbmc', 'jobcheck.c')
    hl = os.path.join(VERIF, 'cbmc', 'jobcheck_light.c')

    def one(sl):
        lo, hi = sl
        gb = os.path.join(ctx.scratch, 'jc_%d.gb' % lo)
        gotocc(ctx, h, gb, defs=['-DMODE_LO=%du' % lo, '-DMODE_HI=%uu' % hi])
        res, fails, log = cbmc(ctx, gb, 'is_job_invalid vs catalogue, cipher_mode in [%d,%d]' % (lo, hi), unwind=4, timeout=900 if ctx.quick() else 2400)
        return sl, res, fails, log

    jobs = list(SLICES)
    results = pool_map(one, jobs)
    for r in results:
        if isinstance(r, Exception):
            ctx.inconclusive.append(str(r))
            continue
        sl, res, fails, log = r
        if res == 'violated':
            summ = summarise(log)
            for fid, desc in fails:
                vals = summ.get(fid, {})
                mode = re.sub(r'.*/', '', vals.get('job.cipher_mode', '?'))
                hsh = re.sub(r'.*/', '', vals.get('job.hash_alg', '?'))
                key = '%s:%s:%s' % (fid.split('.')[-2] + fid.split('.')[-1], mode, hsh)
                viol = vals.get('viol', '?')
                rr = vals.get('r', '?')
                spec_invalid = viol not in ('0ul', '0', '?')
                how, detail = replay_job(ctx, vals, viol, key)
                confirmed = (how == 'accepted' and spec_invalid) or (how == 'rejected' and not spec_invalid) or how == 'crash' \
                    or 'errno names' in desc or 'unchanged' in desc
                text = '%s | catalogue says %s, validator returned %s | native replay: %s %s' % (
                    desc, 'INVALID (mask %s)' % viol if spec_invalid else 'valid', rr, how, detail)
                if confirmed:
                    ctx.violation(key, text, [log, h])
                elif how is None:
                    # replay machinery unavailable: the CBMC trace over the real validator is itself the replay
                    ctx.violation(key, text + ' (native replay unavailable: ' + str(detail) + ')', [log, h])
                else:
                    ctx.inconclusive.append('ENCODING-MISMATCH (counterexample did not reproduce natively): ' + text)
    # must-fail twin (vacuity): some job accepted, some job rejected
    gbw = os.path.join(ctx.scratch, 'jc_w.gb')
    gotocc(ctx, h, gbw, defs=['-DWITNESS', '-DMODE_LO=1u', '-DMODE_HI=3u'])
    cbmc(ctx, gbw, 'WITNESS is_job_invalid harness reaches both verdicts', unwind=4, timeout=600, expect='violated', trace=False)
    # light validator
    gbl = os.path.join(ctx.scratch, 'jl.gb')
    gotocc(ctx, hl, gbl)
    res, fails, log = cbmc(ctx, gbl, 'is_job_invalid_light vs key-size/pairing table (all 2^32 modes x hashes x dirs x 2^64 key lengths)', unwind=4, timeout=300)
    if res == 'violated':
        vals = summarise(log)
        for fid, desc in fails:
            v = vals.get(fid, {})
            ctx.violation('light:%s:c=%s:h=%s' % (fid.split('.')[-1], v.get('c'), v.get('h')),
                          '%s | c=%s h=%s d=%s k=%s r=%s errno=%s (CBMC trace over the real is_job_invalid_light is the replay)' % (
                              desc, v.get('c'), v.get('h'), v.get('d'), v.get('k'), v.get('r'), v.get('dynamic_object.imb_errno')), [log, hl])
    gblw = os.path.join(ctx.scratch, 'jlw.gb')
    gotocc(ctx, hl, gblw, defs=['-DWITNESS'])
    cbmc(ctx, gblw, 'WITNESS light validator harness reaches both verdicts', unwind=4, timeout=300, expect='violated', trace=False)
    ctx.samples += ['every IMB_JOB with cipher_mode in [%d,%d]: rejected <=> catalogue set non-empty, errno in set, descriptor unchanged' % s for s in SLICES[:3]]
    # entry-point level obligations (invalid => INVALID_ARGS, no stage call, ring slot consumed) live in the ring harness
    from props import ring
    ring.run_entry_checks(ctx, which='c12')


if __name__ == '__main__':
    main_wrapper(PROP, run)
