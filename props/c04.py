"""C04 — a job's result depends only on itself, not on co-scheduled jobs."""
from vlib.core import *
from props import asm_cbc, l1

PROP = 'C04'


def run(ctx):
    asm_cbc.run_family(ctx, ('C01', 'C04', 'C07'), PROP)
    from props import asm_hmac
    asm_hmac.run_family(ctx, PROP)
    from props import asm_cmac, asm_cbcsc
    asm_cmac.run_family(ctx, PROP)
    asm_cbcsc.run_family(ctx, PROP)
    from props import asm_ccm
    asm_ccm.run_family(ctx, PROP)
    l1.run_k1(ctx)
    ctx.outside.append('managers other than the AES-CBC encrypt family in this tier (HMAC/CMAC/XCBC/CCM/ZUC/SNOW3G/DES-avx512 managers); lengths between the kernel bound and 65520 with the kernel inlined')
    ctx.samples.append('submit with lanes {0,1,2,4,5,6,7} busy (arbitrary keys/IVs/data/lengths) + new job in lane 3: each lane\'s ciphertext equals CBC over its OWN key/IV/plaintext; '
                       'the returned job is a lane of minimal length; all other jobs keep status; only status bytes of descriptors are written')


if __name__ == '__main__':
    main_wrapper(PROP, run)
