"""L0 ring harness runner, shared by C05 (order/accounting), C12 (invalid => never processed), C14 (errno/status exactness)."""
import os
from vlib.core import *
from tools.trace_summary import summarise

ENTRIES = {1: 'SUBMIT_JOB', 2: 'SUBMIT_JOB_NOCHECK', 3: 'FLUSH_JOB', 4: 'GET_COMPLETED_JOB', 5: 'GET_NEXT_JOB+QUEUE_SIZE',
           6: 'GET_NEXT_BURST', 7: 'SUBMIT_BURST', 8: 'SUBMIT_BURST_NOCHECK', 9: 'FLUSH_BURST'}
STUBS = [('submit_new_job', 'stub_submit_new_job'), ('complete_job', 'stub_complete_job'),
         ('submit_new_burst_job', 'stub_submit_new_job'), ('complete_burst_job', 'stub_complete_job'),
         ('is_job_invalid', 'stub_is_job_invalid')]
ARCH_FILES = {'sse_t1': 'sse_t1/mb_mgr_sse_t1.c', 'avx2_t1': 'avx2_t1/mb_mgr_avx2_t1.c', 'avx512_t1': 'avx512_t1/mb_mgr_avx512_t1.c',
              'sse_t2': 'sse_t2/mb_mgr_sse_t2.c', 'sse_t3': 'sse_t3/mb_mgr_sse_t3.c', 'avx2_t2': 'avx2_t2/mb_mgr_avx2_t2.c',
              'avx2_t3': 'avx2_t3/mb_mgr_avx2_t3.c', 'avx512_t2': 'avx512_t2/mb_mgr_avx512_t2.c'}


STUBS.append(('JOBS', 'stub_JOBS'))
_base_lock = __import__('threading').Lock()
_bases = {}
_key_locks = {}


def build_base(ctx, entry, arch, witness=False, burst=4, desc=False, other=False):
    """ring.c for one entry point, compiled once with goto-cc against the real variant file, contract stubs installed."""
    key = (entry, arch, witness, burst, desc, other)
    with _base_lock:
        lk = _key_locks.setdefault(key, __import__('threading').Lock())
    with lk:
        if key in _bases:
            return _bases[key]
        inc = patched_header_dir(ctx, burst)
        tag = 'ring_%s_%d_b%d%s%s' % (arch, entry, burst, '_w' if witness else '', ('_d' if desc else '') + ('_o' if other else ''))
        gb = os.path.join(ctx.scratch, tag + '.gb')
        defs = ['-DENTRY=%d' % entry, '-DARCH_FILE="%s"' % ARCH_FILES[arch]] + (['-DWITNESS'] if witness else []) + (['-DCHECK_DESC'] if desc else []) + (['-DOTHER_MGR'] if other else [])
        gotocc(ctx, os.path.join(VERIF, 'cbmc', 'ring.c'), gb, defs=defs, incs=[inc], arch=arch)
        gi = os.path.join(ctx.scratch, tag + '.i.gb')
        cmd = ['goto-instrument']
        for a, b in STUBS:
            cmd += ['--replace-calls', '%s:%s' % (a, b)]
        rc, o, _, _ = run(cmd + [gb, gi], timeout=600)
        if rc != 0:
            raise Inconclusive('goto-instrument --replace-calls failed: ' + o[-600:])
        ctx.note_source('lib/' + ARCH_FILES[arch])
        _bases[key] = gi
        return gi


def link_cfg(ctx, base, n0, e0, nj, k0=-1):
    tag = os.path.basename(base)[:-5] + '_%d_%d_%d_%d' % (n0, e0, nj, k0)
    c = os.path.join(ctx.scratch, tag + '.cfg.c')
    open(c, 'w').write('const int cfg_n0=%d, cfg_e0=%d, cfg_nj=%d, cfg_k0=%d;\n' % (n0, e0, nj, k0))
    out = os.path.join(ctx.scratch, tag + '.q.gb')
    rc, o, _, _ = run(['goto-cc', base, c, '-o', out], timeout=300)
    if rc != 0:
        raise Inconclusive('goto-cc link failed: ' + o[-400:])
    return out


def splits(entry, slots=8, burst=4):
    """Case split per entry point: (n0, e0, nj) with -1/-2 = symbolic."""
    if entry == 7:
        return [(n0, -2, nj) for n0 in range(slots) for nj in range(burst + 2)]
    if entry == 8:
        return [(n0, -2, nj) for n0 in range(slots) for nj in range(burst + 1)] if burst > 2 else [(-1, -2, -1)]
    if entry == 9:
        return [(n0, -2, -1) for n0 in range(slots)] if burst > 2 else [(-1, -2, -1)]
    return [(-1, -2, -1)]


def run_entries(ctx, entries, archs, unwind=None, timeout=1500, witness_for=(3, 8), burst=None, desc=False, other=False):
    for f in ('lib/include/mb_mgr_job_api.h', 'lib/include/mb_mgr_burst_async.h', 'lib/include/mb_mgr_code.h', 'lib/intel-ipsec-mb.h'):
        ctx.note_source(f)
    burst = burst or (2 if ctx.quick() else 4)
    slots = 2 * burst
    unwind = unwind or (2 * burst + 2)
    # GET_NEXT_JOB/QUEUE_SIZE/GET_NEXT_BURST are cheap and their wrap handling needs room (request > free space while the free
    # region straddles the end of the array needs burst >= 3): they always run on a 16-slot ring
    big = {5: 8, 6: 8}
    ctx.bounds.update({'ring_slots': slots, 'IMB_MAX_BURST_SIZE(patched copy)': burst, 'cbmc_unwind': unwind,
                       'pre_state': 'ANY ring state satisfying invariant R (arbitrary earliest/next, arbitrary statuses, arbitrary stale errno)',
                       'case_split': 'burst entry points: one query per (next_job slot, burst size); all else symbolic in each query'})
    ctx.assume('contract K1 stubs replace submit_new_job/complete_job/submit_new_burst_job/complete_burst_job: they may complete any '
               'in-flight job of the ring window (or a job being submitted) and nothing else; is_job_invalid is a nondeterministic verdict '
               '(the real validator is checked separately against the catalogue)')
    ctx.assume('JOBS(state, off) is phrased as &state->jobs[off/sizeof(IMB_JOB)] after asserting off is an in-range slot multiple '
               '(identical function on those offsets; keeps CBMC off byte-level reasoning over the whole manager)')
    ctx.assume('small ring (quick: 4 slots, thorough: 8): scratch copy of intel-ipsec-mb.h with the single line IMB_MAX_BURST_SIZE 128 -> 2/4 (checked: exactly one line differs); '
               'the modular arithmetic is re-checked at the real size 256 in ring_arith')
    ctx.assume('a burst list is the expected consecutive slots with at most one corrupted entry (NULL or a foreign descriptor) and at most one '
               'corrupted suite id: the code stops at the first offender, so this is without loss of generality; enum-typed job fields hold enumerators')
    ctx.outside.append('defects that need exactly 256 ring slots AND depend on job contents (ring code reads only status)')
    work = []
    for a in archs:
        for e in entries:
            for sp in splits(e, 2 * big.get(e, burst), big.get(e, burst)):
                if desc:
                    for k0 in range(2 * big.get(e, burst)):
                        work.append((a, e, False, sp + (k0,)))
                else:
                    work.append((a, e, False, sp + (-1,)))
    for e in witness_for:
        if e in entries:
            work.append((archs[0], e, True, splits(e, slots, burst)[len(splits(e, slots, burst)) // 2] + (0 if desc else -1,)))

    def one(w):
        a, e, wit, (n0, e0, nj, k0) = w
        base = build_base(ctx, e, a, wit, big.get(e, burst), desc, other)
        q = link_cfg(ctx, base, n0, e0, nj, k0)
        nm = '%sring step%s %s [%s]%s' % ('WITNESS ' if wit else '', (' +descriptor snapshot' if desc else '') + (' +second manager untouched' if other else ''), ENTRIES[e], a,
                                        ('' if n0 < 0 else ' next_job=slot %d%s' % (n0, '' if nj < 0 else ', n_jobs=%d' % nj)) + ('' if k0 < 0 else ' snapshot slot %d' % k0))
        res, fails, log = cbmc(ctx, q, nm, unwind=(2 * big[e] + 2) if e in big else unwind, timeout=timeout, expect='violated' if wit else 'discharged', trace=not wit)
        return w, res, fails, log

    # compile the bases first (one per entry/arch), in parallel, then the queries
    pool_map(lambda k: build_base(ctx, k[1], k[0], k[2], big.get(k[1], burst), desc, other), sorted(set((w[0], w[1], w[2]) for w in work)), workers=NCPU)
    seen = set()
    for r in pool_map(one, work, workers=NCPU):
        if isinstance(r, Exception):
            ctx.inconclusive.append(str(r))
            continue
        (a, e, wit, sp), res, fails, log = r
        if wit or res != 'violated':
            continue
        summ = summarise(log, [r'^(e0|n0|q0|q1|r|ret|n|mx|sub|bad_i|bad_id|null_list)$', r'st\.(earliest_job|next_job|imb_errno)$', r'^g_'])
        for fid, desc in fails:
            v = summ.get(fid, {})
            key = '%s:%s:%s' % (ENTRIES[e], a, fid.split('.')[-2] + '.' + fid.split('.')[-1])
            if key in seen:
                continue
            seen.add(key)
            ctx.violation(key, '%s at %s: %s | state: %s (the CBMC trace over the real %s is the replay)' % (
                ENTRIES[e], fid, desc, ', '.join('%s=%s' % kv for kv in list(v.items())[:14]), ARCH_FILES[a]), [log, os.path.join(VERIF, 'cbmc', 'ring.c')])
    ctx.samples.append('from ANY ring state with R: one %s call keeps R, returns only the oldest job and only when status>=COMPLETED, queue size law' % ENTRIES[entries[0]])


def run_arith(ctx):
    """Ring arithmetic at the real size (IMB_MAX_JOBS = 256, bursts 0..128) as pure integer functions."""
    h = os.path.join(VERIF, 'cbmc', 'ring_arith.c')
    gb = os.path.join(ctx.scratch, 'ring_arith.gb')
    gotocc(ctx, h, gb)
    res, fails, log = cbmc(ctx, gb, 'ring arithmetic at IMB_MAX_JOBS=256 (queue_sz, queue_sz_remaining, ADV_JOBS, ADV_N_JOBS, get_queue_sz_end, JOBS)', unwind=4, timeout=900)
    if res == 'violated':
        for fid, desc in fails:
            ctx.violation('ring_arith:' + fid.split('.')[-1], desc + ' (CBMC trace is the replay)', [log, h])
    gbw = os.path.join(ctx.scratch, 'ring_arith_w.gb')
    gotocc(ctx, h, gbw, defs=['-DWITNESS'])
    cbmc(ctx, gbw, 'WITNESS ring arithmetic', unwind=4, timeout=900, expect='violated', trace=False)


def run_entry_checks(ctx, which):
    if which == 'c12':
        ents, archs = [1, 7], ['sse_t1']
    elif which == 'c14':
        ents, archs = [1, 2, 3, 4, 5], ['sse_t1']
    else:
        ents, archs = list(ENTRIES), ['sse_t1']
    if not ctx.quick():
        archs = ['sse_t1', 'avx2_t1', 'avx512_t1'] if which == 'c05' else archs
    run_entries(ctx, ents, archs, timeout=1500 if ctx.quick() else 3600)
