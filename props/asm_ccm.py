"""Scenario harness for the AES-CCM authentication managers (real submit/flush machine code + the real CBC-MAC kernels), same form as
props/asm_cmac.py.  Reference (RFC 3610 / SP 800-38C): B0 = flags | nonce | message length, optional AAD block(s) = 2-byte length |
AAD | zero padding, payload blocks zero padded; T = CBC-MAC with a zero IV; tag = leading M bytes of T xor E_K(A0), A0 = (L-1) | nonce
| zero counter - all over uninterpreted AES rounds.  Both directions (encrypt: the authenticated payload is the job's source range; decrypt: what the cipher stage wrote to dst).
Serves C04 (lanes independent), C07 (exact-size nonce/AAD/payload/tag objects), C13 (init blocks, IV slots, key tables wiped), C14
(descriptor write set); the tag obligation is also what C03 says about CCM, but C03 is not claimed (see DESIGN I.6)."""
import os, time
from z3 import (BitVecVal, Or, Extract, Concat, simplify, sat, unsat, is_bv_value, is_true)
from vlib.core import *
from vlib import native
from vlib.asmx.engine import Engine, State, Region, bv, simp, conc, fresh, Unsupported, BoundExceeded, RET_SENTINEL
from vlib.asmx.decode import Obj
from props.asm_hmac import rd, cat, bytes_of, reset_image, same_bytes
from props.asm_kern import enc

MGR, JOBS, STK, DATA = 0x1500000, 0x1600000, 0x1700000, 0x1800000
SPAN = 0x20000
MG = dict(mgr='MB_MGR_CCM_OOO', reset='ooo_mgr_ccm_reset')
VARIANTS = {
    'sse': dict(dir='sse_t1', lanes=8, files=['mb_mgr_aes_ccm_auth_submit_flush_x8_sse.asm', 'aes128_cbc_mac_x8_sse.asm', 'aes256_cbc_mac_x8_sse.asm'],
                sub='submit_job_aes%d_ccm_auth_x8_sse', fl='flush_job_aes%d_ccm_auth_x8_sse'),
    'avx': dict(dir='avx2_t1', lanes=8, files=['mb_mgr_aes128_ccm_auth_submit_flush_x8_avx.asm', 'mb_mgr_aes256_ccm_auth_submit_flush_x8_avx.asm', 'aes128_cbc_mac_x8_avx.asm', 'aes256_cbc_mac_x8_avx.asm'],
                sub='submit_job_aes%d_ccm_auth_avx', fl='flush_job_aes%d_ccm_auth_avx'),
    'vaes': dict(dir='avx512_t2', lanes=16, files=['mb_mgr_aes128_ccm_auth_submit_flush_x16_vaes_avx512.asm', 'mb_mgr_aes256_ccm_auth_submit_flush_x16_vaes_avx512.asm', 'aes_cbc_enc_vaes_avx512.asm'],
                 sub='submit_job_aes%d_ccm_auth_vaes_avx512', fl='flush_job_aes%d_ccm_auth_vaes_avx512'),
}


def offsets(ctx):
    items = [('in', 'offsetof(MB_MGR_CCM_OOO,args.in)'), ('keys', 'offsetof(MB_MGR_CCM_OOO,args.keys)'), ('road', 'offsetof(MB_MGR_CCM_OOO,road_block)'),
             ('JOB_SZ', 'sizeof(IMB_JOB)'), ('J_src', 'offsetof(IMB_JOB,src)'), ('J_dst', 'offsetof(IMB_JOB,dst)'), ('J_hoff', 'offsetof(IMB_JOB,hash_start_src_offset_in_bytes)'),
             ('J_hlen', 'offsetof(IMB_JOB,msg_len_to_hash_in_bytes)'), ('J_tag', 'offsetof(IMB_JOB,auth_tag_output)'), ('J_taglen', 'offsetof(IMB_JOB,auth_tag_output_len_in_bytes)'),
             ('J_key', 'offsetof(IMB_JOB,enc_keys)'), ('J_iv', 'offsetof(IMB_JOB,iv)'), ('J_ivlen', 'offsetof(IMB_JOB,iv_len_in_bytes)'), ('J_dir', 'offsetof(IMB_JOB,cipher_direction)'),
             ('J_aad', 'offsetof(IMB_JOB,u.CCM.aad)'), ('J_aadlen', 'offsetof(IMB_JOB,u.CCM.aad_len_in_bytes)'), ('J_status', 'offsetof(IMB_JOB,status)')]
    return native.offsets(ctx, ['#include "intel-ipsec-mb.h"', '#include "include/ipsec_ooo_mgr.h"'], items)


def spec_ccm(msg, aad, nonce, ks, rounds, M):
    n = len(nonce)
    L = 15 - n
    flags = (64 if aad else 0) + 8 * ((M - 2) // 2) + (L - 1)
    ml = len(msg)
    b0 = [BitVecVal(flags, 8)] + list(nonce) + [BitVecVal((ml >> (8 * (L - 1 - k))) & 0xff, 8) for k in range(L)]
    stream = list(b0)
    if aad:
        a = [BitVecVal(len(aad) >> 8, 8), BitVecVal(len(aad) & 0xff, 8)] + list(aad)
        a += [BitVecVal(0, 8)] * ((-len(a)) % 16)
        stream += a
    p = list(msg) + [BitVecVal(0, 8)] * ((-ml) % 16)
    stream += p
    x = BitVecVal(0, 128)
    chain = []
    for b in range(len(stream) // 16):
        x = enc(x ^ cat(stream[16 * b:16 * b + 16]), ks, rounds)
        chain.append(x)
    a0 = [BitVecVal(L - 1, 8)] + list(nonce) + [BitVecVal(0, 8)] * L
    s0 = enc(cat(a0), ks, rounds)
    return [simplify(t) for t in bytes_of(x ^ s0, 16)[:M]], chain


class Res:
    def __init__(self):
        self.obl, self.viol = [], []
        self.steps = self.queries = 0
        self.solver_s = 0.0
        self.src = {}


def run_scenario(ctx, variant, bits, jobs_spec, safe_data=True, res=None, sabotage=None):
    """jobs_spec: list of (message bytes, AAD bytes 0..46, nonce bytes 7..13, tag bytes 4..16 even)"""
    res = res or Res()
    V = VARIANTS[variant]
    O = offsets(ctx)
    rounds = {128: 10, 256: 14}[bits]
    KS = 16 * (rounds + 1)
    drop = () if safe_data else ('-DSAFE_DATA',)
    from vlib.asmx.link import link_units
    out = os.path.join(ctx.scratch, 'ccm_%s_%d%s.o' % (variant, bits, '' if safe_data else '_ns'))
    link_units(ctx, ['%s/%s' % (V['dir'], f) for f in V['files']] + ['x86_64/const.asm'], out, drop=drop)
    obj = Obj(out)
    res.src.update(ctx.functions)
    img = reset_image(ctx, 'ccm', V['lanes'], MG)
    nj = len(jobs_spec)
    script = [('s', i) for i in range(nj)] + [('f',)] * (nj + 1)
    name = 'ccm-%d %s jobs(msg,aad,nonce,tag)=%s' % (bits, variant, [tuple(j) for j in jobs_spec])
    t0 = time.time()
    E = Engine(obj, mode='precise', max_steps=900000, loop_bound=200)
    st = State()
    mgr = Region('mgr', MGR, O['road'], True, img)
    jobs = Region('jobs', JOBS, nj * O['JOB_SZ'])
    stk = Region('stack', STK, 4096)
    ro = Region('rodata', obj.RODATA_BASE, max(1, len(obj.rodata)), False, obj.rodata)
    tx = Region('text', obj.TEXT_BASE, max(1, len(obj.text_bytes)), False, obj.text_bytes)
    st.regions = [mgr, jobs, stk, ro, tx]
    J = []
    for i, js_ in enumerate(jobs_spec):
        L, A, N, T = js_[:4]
        dec = len(js_) > 4 and js_[4] == 'dec'     # decrypt: the cipher stage ran first, the authenticated payload is what it wrote to dst
        base = DATA + i * SPAN
        rmsg = Region('msg%d' % i, base + 3, max(L - (1 if sabotage == 'shrink' and i == 0 else 0), 1), writable=False, secret=True)
        raad = Region('aad%d' % i, base + 0x4000, max(A, 1), writable=False)
        rnon = Region('non%d' % i, base + 0x5000, N, writable=False)
        rks = Region('ks%d' % i, base + 0x10000, KS, writable=False, secret=True)
        rtag = Region('tag%d' % i, base + 0x12000, T)
        st.regions += [rmsg, raad, rnon, rks, rtag]
        oj = i * O['JOB_SZ']
        for f, v in (('J_src', base + 0x9000 if dec else base), ('J_dst', base + 3 if dec else base + 0x8000), ('J_hoff', 3), ('J_hlen', L), ('J_tag', rtag.base), ('J_taglen', T), ('J_key', rks.base), ('J_iv', rnon.base), ('J_ivlen', N),
                     ('J_aad', raad.base if A else 0), ('J_aadlen', A)):
            for k in range(8):
                jobs.bytes[oj + O[f] + k] = BitVecVal((v >> (8 * k)) & 0xff, 8)
        for k in range(4):
            jobs.bytes[oj + O['J_dir'] + k] = BitVecVal(((2 if dec else 1) >> (8 * k)) & 0xff, 8)      # IMB_DIR_DECRYPT / IMB_DIR_ENCRYPT
        J.append(dict(addr=JOBS + oj, off=oj))
    snap = {r.name: r.clone() for r in st.regions}
    stat0 = [rd(jobs, j['off'] + O['J_status'], 4) for j in J]
    rsp0 = STK + 4096 - 8 - 256
    states = [st]
    returned = {id(st): []}
    try:
        for step, op in enumerate(script):
            nxt = []
            for s in states:
                hist = returned.pop(id(s))
                s.r[4] = bv(rsp0, 64)
                sreg = [r for r in s.regions if r.name == 'stack'][0]
                for k in range(8):
                    sreg.bytes[rsp0 - STK + k] = BitVecVal((RET_SENTINEL >> (8 * k)) & 0xff, 8)
                s.r[7] = bv(MGR, 64)
                if op[0] == 's':
                    s.r[6] = bv(J[op[1]]['addr'], 64)
                    fin = E.run(s, V['sub'] % bits)
                else:
                    s.r[6] = fresh(64, 'garbage')
                    fin = E.run(s, V['fl'] % bits)
                for f in fin:
                    ret = conc(simp(f.r[0]))
                    if ret is None:
                        raise Unsupported('symbolic return value after %s' % (op,))
                    returned[id(f)] = hist + [(step, op, ret)]
                    nxt.append(f)
            states = nxt
    except (Unsupported, BoundExceeded) as e:
        res.obl.append((name, None, 'inconclusive: ' + str(e)[:300], time.time() - t0))
        return res
    res.steps += E.insn_count
    for pi, f in enumerate(states):
        hist = returned[id(f)]
        R = {r.name: r for r in f.regions}
        pre = name + ' path %d/%d ' % (pi + 1, len(states))
        rets = [r for (_, _, r) in hist if r != 0]
        ok = sorted(rets) == sorted(j['addr'] for j in J) and hist[-1][2] == 0
        res.obl.append((pre + 'C05 every submitted job is handed back exactly once, the surplus flush returns NULL', ok, str([(o, hex(r)) for _, o, r in hist])[:300], 0))
        if not ok:
            res.viol.append(('C04:%s:handback' % name, 'jobs handed back: %s' % [hex(r) for r in rets]))
        inner = []
        for i, j in enumerate(J):
            if j['addr'] not in rets:
                continue
            L, A, N, T = jobs_spec[i][:4]
            msg = [snap['msg%d' % i].get(k) for k in range(L)] if not (sabotage == 'shrink' and i == 0) else [snap['msg0'].get(k) for k in range(L - 1)] + [BitVecVal(0, 8)]
            aad = [snap['aad%d' % i].get(k) for k in range(A)]
            non = [snap['non%d' % i].get(k) for k in range(N)]
            ks = [rd(snap['ks%d' % i], 16 * k, 16) for k in range(rounds + 1)]
            if sabotage == 'oracle':
                ks = [ks[1]] + ks[1:]
            exp, chain = spec_ccm(msg, aad, non, ks, rounds, T)
            inner += chain[:-1]
            got = [R['tag%d' % i].get(k) for k in range(T)]
            t1 = time.time()
            if same_bytes(got, exp):
                r = unsat
            else:
                r, m = E.check(f, Or(*[g != e for g, e in zip(got, exp)]))
            res.obl.append((pre + 'C03 job %d (msg %d, AAD %d, nonce %d, tag %d%s): tag == AES-%d-CCM authentication value (B0/AAD/payload formatting, CBC-MAC, xor E(A0)) over uninterpreted rounds' % (i, L, A, N, T, ', decrypt' if len(jobs_spec[i]) > 4 else '', bits),
                            (True if r == unsat else (False if r == sat else None)), str(r), time.time() - t1))
            if r == sat:
                res.viol.append(('C03:%s:job%d:tag' % (name, i), 'CCM tag of job %d (msg %d, AAD %d, nonce %d, tag %d) differs from the specification' % (i, L, A, N, T)))
            stn = rd(R['jobs'], j['off'] + O['J_status'], 4)
            r, m = E.check(f, stn != (stat0[i] | 2))
            res.obl.append((pre + 'C14 job %d: status == previous | COMPLETED_AUTH' % i, r == unsat, str(r), 0))
            if r != unsat:
                res.viol.append(('C14:%s:job%d:status' % (name, i), 'status of the returned job is not previous|COMPLETED_AUTH'))
        wset = sorted(R['jobs'].written)
        okw = all(any(j['off'] + O['J_status'] <= o < j['off'] + O['J_status'] + 4 for j in J) for o in wset)
        res.obl.append((pre + 'C14 descriptor write set is a subset of the status fields', okw, str(wset[:12]), 0))
        if not okw:
            res.viol.append(('C14:%s:writeset' % name, 'manager wrote job descriptor bytes other than status: offsets %s' % wset[:16]))
        ok = not f.faults
        res.obl.append((pre + 'C07 every access inside the exact-size payload / AAD / nonce / key schedule / tag objects, the manager and the stack', ok, str(f.faults[:3]), 0))
        if not ok:
            res.viol.append(('C07:%s' % name, 'access outside the caller objects: %s' % (['%s %s(+%d bytes) at .text+%x' % (x[0], x[4], x[2], x[3] or 0) for x in f.faults[:3]],)))
        if safe_data or sabotage == 'nosafe':
            def raw(term, memo):
                k = term.get_id()
                if k in memo:
                    return memo[k]
                memo[k] = False
                d = term.decl().name()
                if term.num_args() == 0:
                    r_ = (not is_bv_value(term)) and d.startswith(('msg', 'ks'))
                elif d.startswith('aes'):
                    r_ = False
                else:
                    r_ = any(raw(c, memo) for c in term.children())
                memo[k] = r_
                return r_
            leaks = []
            for o in range(O['road']):
                if O['in'] <= o < O['in'] + 128 or O['keys'] <= o < O['keys'] + 128:
                    continue
                t = R['mgr'].get(o)
                if not is_bv_value(t) and raw(t, {}):
                    leaks.append('mgr+%d' % o)
                    if len(leaks) > 6:
                        break
            for i in range(32):
                if not is_bv_value(f.v[i]) and raw(f.v[i], {}):
                    leaks.append('zmm%d' % i)
            sr = R['stack']
            for o in sorted(sr.written):
                if o < rsp0 - STK and not is_bv_value(sr.get(o)) and raw(sr.get(o), {}):
                    leaks.append('stack%+d' % (o - (rsp0 - STK)))
                    break
            res.obl.append((pre + 'C13 after all jobs are handed back no payload / round-key byte is left in the manager (init blocks, IV slots, key table), vector registers or stack frame', not leaks, ','.join(leaks[:8]), 0))
            if leaks:
                res.viol.append(('C13:%s' % name, 'residue after the last job was handed back: %s' % ','.join(leaks[:10])))
    res.queries += E.nq
    res.solver_s += E.tq
    return res


def scenarios(variant, quick):
    nl = VARIANTS[variant]['lanes']
    pool = [(23, 10, 7, 16), (16, 0, 13, 4), (0, 46, 12, 10), (33, 17, 8, 6), (1, 1, 9, 8), (47, 32, 10, 12), (64, 3, 11, 14), (15, 0, 7, 4), (17, 20, 13, 16),
            (32, 14, 13, 8), (48, 15, 12, 8), (5, 30, 11, 10), (31, 0, 8, 16), (80, 46, 13, 6), (2, 2, 7, 4), (100, 8, 12, 8), (16, 16, 10, 12)]
    if not quick:
        pool += [(l, a, n, t) for l, a, n, t in [(255, 13, 13, 16), (256, 0, 7, 8), (257, 46, 12, 4), (63, 31, 9, 10), (65, 29, 8, 14), (128, 45, 11, 6), (129, 1, 10, 12)]]
    out = []
    n = nl + 1
    for i in range(0, len(pool), n):
        js = pool[i:i + n]
        k = 0
        while len(js) < n:
            js.append(pool[(i + n + k) % len(pool)])
            k += 1
        out.append(dict(jobs_spec=js))
    out.append(dict(jobs_spec=[(23, 10, 7, 16, 'dec'), (16, 0, 13, 4), (37, 46, 12, 10, 'dec'), (33, 17, 8, 6, 'dec')]))     # decrypt direction mixed with encrypt
    for j in sorted(set([0, nl - 1, nl // 2, min(nl - 1, nl // 2 + 1)])):           # position of the strictly smallest lane
        js = [(16 * (4 + (i % 3)) + (i % 2) * 5, 6 * (i % 3), 7 + (i % 7), 4 + 2 * (i % 7)) for i in range(nl)]
        js[j] = (7, 0, 13, 8)
        out.append(dict(jobs_spec=js + [(48, 9, 12, 8)]))
    return out


def _task(a):
    import traceback
    variant, bits, kw = a
    from vlib.core import Ctx
    c = Ctx('asmx_worker', 'quick', 0)
    try:
        r = run_scenario(c, variant, bits, **kw)
        return dict(obl=r.obl, viol=r.viol, steps=r.steps, queries=r.queries, solver_s=r.solver_s, src=r.src, args=a)
    except Exception as e:
        return dict(obl=[('ccm-%d %s %s' % (bits, variant, kw), None, 'engine error: ' + traceback.format_exc()[-400:], 0)], viol=[], steps=0, queries=0, solver_s=0, src={}, args=a)
    finally:
        c.cleanup()


def run_family(ctx, prop):
    from multiprocessing import Pool
    quick = ctx.quick()
    tasks = [(v, bits, kw) for v in VARIANTS for bits in (128, 256) for kw in scenarios(v, quick)]
    if prop == 'C03':
        tasks.append(('sse', 128, dict(jobs_spec=[(23, 10, 7, 16), (16, 0, 13, 4)], sabotage='oracle')))
    if prop == 'C07':
        tasks.append(('sse', 128, dict(jobs_spec=[(23, 10, 7, 16)], sabotage='shrink')))
    if prop == 'C13':
        tasks.append(('sse', 128, dict(jobs_spec=[(23, 10, 7, 16), (16, 0, 13, 4)], safe_data=False, sabotage='nosafe')))
    want = {'C03': (' C03 ',), 'C04': (' C03 job', ' C05 '), 'C07': (' C07 ',), 'C13': (' C13 ',), 'C14': (' C14 ',)}[prop]
    ctx.bounds['ccm_managers'] = ('submit/flush_job_aes{128,256}_ccm_auth_{x8_sse, avx, vaes_avx512} with their real CBC-MAC kernels from the image of the real reset routine; scripts of lanes+1 submits '
                                  'then flushes; payload 0..100 bytes (thorough 257), AAD 0..46, nonce 7..13, tag 4..16 (even); both directions; payload, AAD, nonce, round keys symbolic')
    with Pool(min(NCPU, max(1, len(tasks)))) as pool:
        for r in pool.imap_unordered(_task, tasks):
            ctx.solver_s += r['solver_s']
            ctx.functions.update(r['src'])
            kw = r['args'][2]
            sab = kw.get('sabotage')
            if sab:
                pfx = {'oracle': 'C03', 'shrink': 'C07', 'nosafe': 'C13'}[sab]
                got = any(k.startswith(pfx) for k, t in r['viol'])
                ctx.add('WITNESS CCM scenario with %s must report a %s violation' % ({'oracle': 'a wrong whitening key in the reference', 'shrink': 'a payload object one byte short',
                                                                                   'nosafe': 'the manager assembled without -DSAFE_DATA'}[sab], pfx),
                        'violated' if got else 'discharged', 0, 'asmx', str(r['obl'][:1])[:200], expect='violated')
                continue
            for name, ok, detail, secs in r['obl']:
                if ok is not None and not any(w in name for w in want):
                    continue
                if prop == 'C04':
                    name = name.replace(' C03 job', ' C04 (co-scheduled with the other jobs of the script) job').replace(' C05 ', ' C04 ')
                ctx.add(name, 'discharged' if ok else ('inconclusive' if ok is None else 'violated'), secs, 'asmx', detail)
            for key, text in r['viol']:
                if key.startswith(prop) or (prop == 'C04' and key.startswith('C03')):
                    ctx.violation(key, text + ' (replay: props/asm_ccm.py run_scenario%s)' % (r['args'],))
