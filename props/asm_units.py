"""Dispatcher: which precise asmx harness families serve which property, and the common evidence text."""
from vlib.core import *
from props import asm_cbc

TEXT = {
    'C01': 'cipher output equals the published mode over uninterpreted block primitives',
    'C07': 'every load/store inside a declared caller object of exact size; source intact; in-place = out-of-place',
    'C13': 'no term depending on key/plaintext symbols of the completed job remains in registers, stack frame or manager storage',
}


def run_all(ctx, prop):
    facets = {'C01': ('C01',), 'C07': ('C01', 'C07'), 'C13': ('C13',), 'C04': ('C01', 'C04', 'C07')}[prop]
    asm_cbc.run_family(ctx, facets, prop)
    try:
        from props import asm_kern
        asm_kern.run_family(ctx, prop)
    except ImportError:
        pass
    if prop in ('C01', 'C07', 'C13'):
        from props import asm_cbcsc
        asm_cbcsc.run_family(ctx, prop)     # x16 VAES CBC-encrypt managers (scenario form)
    if prop in ('C04', 'C07', 'C13'):
        from props import asm_ccm
        asm_ccm.run_family(ctx, prop)
        from props import asm_hmac, asm_cmac
        asm_hmac.run_family(ctx, prop)
        asm_cmac.run_family(ctx, prop)
        if prop in ('C07', 'C13'):
            from props import asm_sm3
            asm_sm3.run_family(ctx, prop)
    ctx.samples.append('%s on submit/flush_job_aes{128,192,256}_enc_x8_sse with the real x8 kernels: %s' % (prop, TEXT.get(prop, '')))
    if prop == 'C01':
        ctx.outside += ['that AESENC/PCLMULQDQ implement AES/GF(2) multiplication (hardware)', 'cipher modes whose kernels are not listed in functions_encoded for this tier',
                        'messages longer than the per-unit bound']
    if prop == 'C07':
        ctx.outside += ['over-reads that stay inside the same caller object', 'units not listed in functions_encoded']
    if prop == 'C13':
        ctx.outside += ['units not listed in functions_encoded; secrets that reach memory through the job\'s own outputs are not residue']
