"""C03 — AEAD and combined modes equal their specification (this session: AES-CCM authentication managers, ChaCha20-Poly1305 glue; see DESIGN)."""
from vlib.core import *

PROP = 'C03'


def run(ctx):
    quick = ctx.quick()
    from props import asm_ccm, c10
    asm_ccm.run_family(ctx, PROP)
    # ChaCha20-Poly1305: the C glue of the single job and of the direct init/update/finalize calls feeds Poly1305 with
    # pad16(AAD) || pad16(ciphertext) || lengths and XORs the keystream of the absolute position, in both directions
    lens = [0, 3, 16, 21] if quick else [0, 1, 7, 15, 16, 17, 24]
    c10.run_chapoly(ctx, lens, [0, 13] if quick else [0, 5, 16, 20], label='C03')
    ctx.assume('AES-CCM: AESENC/AESENCLAST are uninterpreted (hardware); the counter-mode half of CCM is the CTR kernel obligation of C01 (aes_cntr_ccm_* kernels are not in its list); '
               'ChaCha20-Poly1305: ghost kernels (Poly1305 input stream recorder, uninterpreted keystream of the position); the scalar Poly1305 block step is decided in C02')
    ctx.outside += ['AES-GCM / GMAC / GHASH (stitched CTR+GHASH kernels, var-IV J0 derivation), SNOW-V-AEAD, SM4-GCM, DOCSIS-BPI with CRC32, PON AES-CTR with CRC/BIP: none of their kernels is encoded '
                    '(GF(2^128) multiplication via PCLMULQDQ against a specification needs algebra the uninterpreted-function encoding cannot express; concrete-key co-simulation would be testing, not a solver verdict)',
                    'the aes_cntr_ccm_* cipher kernels; CCM payloads above 100 (thorough 257) bytes',
                    'what the ChaCha20 and Poly1305 SIMD kernels compute (C01/C02 say what is covered there)']
    ctx.samples.append('AES-128-CCM, payload 33, AAD 17, nonce 8, tag 6 on the VAES x16 manager: tag == leading 6 bytes of CBC-MAC(B0 | len(AAD) AAD pad | payload pad) xor E(A0), for all payload/AAD/nonce/key bytes')


if __name__ == '__main__':
    main_wrapper(PROP, run)
