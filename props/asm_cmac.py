"""Precise asmx harness for the AES-CMAC multi-buffer manager (real submit/flush machine code AND the real x8 CBC-MAC kernel),
scenario form like props/asm_hmac.py: manager image from the real reset routine, a script of submits and flushes, every message /
sub-key / round-key byte symbolic, AESENC uninterpreted.  Reference: NIST SP 800-38B / RFC 4493 over the same uninterpreted rounds
(complete last block xor K1, padded last block xor K2; 3GPP bit-length variant pads after the last message bit)."""
import os, time
from z3 import (BitVec, BitVecVal, And, Or, Not, Extract, Concat, ZeroExt, simplify, sat, unsat, is_bv_value, is_true)
from vlib.core import *
from vlib import native
from vlib.asmx.engine import Engine, State, Region, bv, simp, conc, fresh, Unsupported, BoundExceeded, RET_SENTINEL
from vlib.asmx.decode import Obj
from props.asm_hmac import rd, cat, bytes_of, reset_image, same_bytes, raw_secret
from props.asm_kern import enc

MGR, JOBS, STK, DATA = 0x1500000, 0x1600000, 0x1700000, 0x1800000
SPAN = 0x20000
VARIANTS = {
    'sse': dict(dir='sse_t1', files=['mb_mgr_aes_cmac_submit_flush_x8_sse.asm', 'aes128_cbc_mac_x8_sse.asm', 'aes256_cbc_mac_x8_sse.asm'], lanes=8,
                sub={128: 'submit_job_aes128_cmac_auth_x8_sse', 256: 'submit_job_aes256_cmac_auth_x8_sse'}, fl={128: 'flush_job_aes128_cmac_auth_x8_sse', 256: 'flush_job_aes256_cmac_auth_x8_sse'}),
}
VARIANTS['avx'] = dict(dir='avx2_t1', files=['mb_mgr_aes128_cmac_submit_flush_x8_avx.asm', 'mb_mgr_aes256_cmac_submit_flush_x8_avx.asm', 'aes128_cbc_mac_x8_avx.asm', 'aes256_cbc_mac_x8_avx.asm'], lanes=8,
                       sub={128: 'submit_job_aes128_cmac_auth_avx', 256: 'submit_job_aes256_cmac_auth_avx'}, fl={128: 'flush_job_aes128_cmac_auth_avx', 256: 'flush_job_aes256_cmac_auth_avx'})
VARIANTS['vaes'] = dict(dir='avx512_t2', files=['mb_mgr_aes128_cmac_submit_flush_x16_vaes_avx512.asm', 'mb_mgr_aes256_cmac_submit_flush_x16_vaes_avx512.asm', 'aes_cbc_enc_vaes_avx512.asm'], lanes=16,
                        sub={128: 'submit_job_aes128_cmac_auth_vaes_avx512', 256: 'submit_job_aes256_cmac_auth_vaes_avx512'},
                        fl={128: 'flush_job_aes128_cmac_auth_vaes_avx512', 256: 'flush_job_aes256_cmac_auth_vaes_avx512'})
MG = dict(mgr='MB_MGR_CMAC_OOO', reset='ooo_mgr_cmac_reset')
XMG = dict(mgr='MB_MGR_AES_XCBC_OOO', reset='ooo_mgr_aes_xcbc_reset')
XVARIANTS = {
    'sse': dict(dir='sse_t1', files=['mb_mgr_aes128_xcbc_submit_x4_sse.asm', 'mb_mgr_aes128_xcbc_flush_x4_sse.asm', 'aes128_xcbc_mac_x4_sse.asm'], lanes=4,
                sub={128: 'submit_job_aes_xcbc_sse'}, fl={128: 'flush_job_aes_xcbc_sse'}),
    'avx': dict(dir='avx2_t1', files=['mb_mgr_aes128_xcbc_submit_x8_avx.asm', 'mb_mgr_aes128_xcbc_flush_x8_avx.asm', 'aes128_xcbc_mac_x8_avx.asm'], lanes=8,
                sub={128: 'submit_job_aes_xcbc_avx'}, fl={128: 'flush_job_aes_xcbc_avx'}),
    'vaes': dict(dir='avx512_t2', files=['mb_mgr_aes128_xcbc_submit_flush_x16_vaes_avx512.asm', 'aes_cbc_enc_vaes_avx512.asm'], lanes=16,
                 sub={128: 'submit_job_aes_xcbc_vaes_avx512'}, fl={128: 'flush_job_aes_xcbc_vaes_avx512'}),
}


def xoffsets(ctx):
    items = [('in', 'offsetof(MB_MGR_AES_XCBC_OOO,args.in)'), ('keys', 'offsetof(MB_MGR_AES_XCBC_OOO,args.keys)'), ('IV', 'offsetof(MB_MGR_AES_XCBC_OOO,args.ICV)'),
             ('lens', 'offsetof(MB_MGR_AES_XCBC_OOO,lens)'), ('scratch', 'offsetof(MB_MGR_AES_XCBC_OOO,ldata)'), ('road', 'offsetof(MB_MGR_AES_XCBC_OOO,road_block)'),
             ('JOB_SZ', 'sizeof(IMB_JOB)'), ('J_src', 'offsetof(IMB_JOB,src)'), ('J_hoff', 'offsetof(IMB_JOB,hash_start_src_offset_in_bytes)'),
             ('J_hlen', 'offsetof(IMB_JOB,msg_len_to_hash_in_bytes)'), ('J_tag', 'offsetof(IMB_JOB,auth_tag_output)'), ('J_taglen', 'offsetof(IMB_JOB,auth_tag_output_len_in_bytes)'),
             ('J_key', 'offsetof(IMB_JOB,u.XCBC._k1_expanded)'), ('J_k1', 'offsetof(IMB_JOB,u.XCBC._k2)'), ('J_k2', 'offsetof(IMB_JOB,u.XCBC._k3)'), ('J_status', 'offsetof(IMB_JOB,status)')]
    return native.offsets(ctx, ['#include "intel-ipsec-mb.h"', '#include "include/ipsec_ooo_mgr.h"'], items)


def offsets(ctx):
    items = [('in', 'offsetof(MB_MGR_CMAC_OOO,args.in)'), ('keys', 'offsetof(MB_MGR_CMAC_OOO,args.keys)'), ('IV', 'offsetof(MB_MGR_CMAC_OOO,args.IV)'),
             ('lens', 'offsetof(MB_MGR_CMAC_OOO,lens)'), ('scratch', 'offsetof(MB_MGR_CMAC_OOO,scratch)'), ('jil', 'offsetof(MB_MGR_CMAC_OOO,job_in_lane)'),
             ('road', 'offsetof(MB_MGR_CMAC_OOO,road_block)'),
             ('JOB_SZ', 'sizeof(IMB_JOB)'), ('J_src', 'offsetof(IMB_JOB,src)'), ('J_hoff', 'offsetof(IMB_JOB,hash_start_src_offset_in_bytes)'),
             ('J_hlen', 'offsetof(IMB_JOB,msg_len_to_hash_in_bits)'), ('J_tag', 'offsetof(IMB_JOB,auth_tag_output)'), ('J_taglen', 'offsetof(IMB_JOB,auth_tag_output_len_in_bytes)'),
             ('J_key', 'offsetof(IMB_JOB,u.CMAC._key_expanded)'), ('J_k1', 'offsetof(IMB_JOB,u.CMAC._skey1)'), ('J_k2', 'offsetof(IMB_JOB,u.CMAC._skey2)'), ('J_status', 'offsetof(IMB_JOB,status)')]
    return native.offsets(ctx, ['#include "intel-ipsec-mb.h"', '#include "include/ipsec_ooo_mgr.h"'], items)


def spec_cmac(msg, nbits, ks, rounds, k1, k2, taglen, empty_is_padded=True):
    """msg: byte terms covering ceil(nbits/8) bytes; returns (tag bytes, chaining values)"""
    nbytes = (nbits + 7) // 8
    rbits = nbits % 8
    n = max(1, (nbytes + 15) // 16)
    complete = nbytes > 0 and nbytes % 16 == 0 and rbits == 0
    x = BitVecVal(0, 128)
    chain = []
    for b in range(n - 1):
        x = enc(x ^ cat(msg[16 * b:16 * b + 16]), ks, rounds)
        chain.append(x)
    last = list(msg[16 * (n - 1):nbytes])
    if complete:
        ml = cat(last) ^ k1
    else:
        if rbits:
            keep = (0xff << (8 - rbits)) & 0xff            # the rbits most significant bits of the last byte belong to the message
            last[-1] = simplify((last[-1] & keep) | BitVecVal(0x80 >> rbits, 8))
        else:
            last.append(BitVecVal(0x80, 8))
        last += [BitVecVal(0, 8)] * (16 - len(last))
        ml = cat(last) ^ k2
    x = enc(x ^ ml, ks, rounds)
    return [simplify(t) for t in bytes_of(x, 16)[:taglen]], chain + [x]


class CResult:
    def __init__(self):
        self.obl, self.viol = [], []
        self.steps = self.queries = 0
        self.solver_s = 0.0
        self.src = {}


def run_scenario(ctx, variant, bits, nbits, taglens=None, hoff=0, safe_data=True, res=None, sabotage=None, alg='cmac'):
    """nbits: message length in BITS of each job (a multiple of 8 for plain CMAC)."""
    res = res or CResult()
    xc = alg == 'xcbc'        # AES-XCBC-MAC-96 (RFC 3566): same CBC-MAC skeleton, K2 on a complete last block, 10* padding and K3 otherwise, lengths in bytes, 12-byte tag
    V = (XVARIANTS if xc else VARIANTS)[variant]
    O = xoffsets(ctx) if xc else offsets(ctx)
    rounds = {128: 10, 256: 14}[bits]
    KS = 16 * (rounds + 1)
    drop = () if safe_data else ('-DSAFE_DATA',)
    from vlib.asmx.link import link_units
    out = os.path.join(ctx.scratch, '%s_%s_%d%s.o' % (alg, variant, bits, '' if safe_data else '_ns'))
    link_units(ctx, ['%s/%s' % (V['dir'], f) for f in V['files']] + ['x86_64/const.asm'], out, drop=drop)
    obj = Obj(out)
    res.src.update(ctx.functions)
    img = reset_image(ctx, alg, V['lanes'], XMG if xc else MG)
    nj = len(nbits)
    taglens = taglens or ([12] * nj if xc else [(16, 12, 4, 8)[i % 4] for i in range(nj)])
    script = [('s', i) for i in range(nj)] + [('f',)] * (nj + 1)
    name = '%s-%d %s bits=%s tags=%s%s' % (alg, bits, variant, list(nbits), list(taglens), ' hoff=%d' % hoff if hoff else '')
    t0 = time.time()
    E = Engine(obj, mode='precise', max_steps=600000, loop_bound=200)
    st = State()
    mgr = Region('mgr', MGR, O['road'], True, img)
    jobs = Region('jobs', JOBS, nj * O['JOB_SZ'])
    stk = Region('stack', STK, 4096)
    ro = Region('rodata', obj.RODATA_BASE, max(1, len(obj.rodata)), False, obj.rodata)
    tx = Region('text', obj.TEXT_BASE, max(1, len(obj.text_bytes)), False, obj.text_bytes)
    st.regions = [mgr, jobs, stk, ro, tx]
    J = []
    for i, nb in enumerate(nbits):
        L = (nb + 7) // 8
        base = DATA + i * SPAN
        rmsg = Region('msg%d' % i, base + hoff, max(L - (1 if sabotage == 'shrink' and i == 0 else 0), 1), writable=False, secret=True)
        rks = Region('ks%d' % i, base + 0x10000, KS, writable=False, secret=True)
        rk1 = Region('skeya%d' % i, base + 0x11000, 16, writable=False, secret=True)
        rk2 = Region('skeyb%d' % i, base + 0x11800, 16, writable=False, secret=True)
        rtag = Region('tag%d' % i, base + 0x12000, taglens[i])
        st.regions += [rmsg, rks, rk1, rk2, rtag]
        oj = i * O['JOB_SZ']
        for f, v in (('J_src', base), ('J_hoff', hoff), ('J_hlen', nb // 8 if xc else nb), ('J_tag', rtag.base), ('J_taglen', taglens[i]), ('J_key', rks.base), ('J_k1', rk1.base), ('J_k2', rk2.base)):
            for k in range(8):
                jobs.bytes[oj + O[f] + k] = BitVecVal((v >> (8 * k)) & 0xff, 8)
        J.append(dict(addr=JOBS + oj, off=oj, L=L))
    snap = {r.name: r.clone() for r in st.regions}
    stat0 = [rd(jobs, j['off'] + O['J_status'], 4) for j in J]
    rsp0 = STK + 4096 - 8 - 256
    states = [st]
    returned = {id(st): []}
    try:
        for step, op in enumerate(script):
            nxt = []
            for s in states:
                hist = returned.pop(id(s))
                s.r[4] = bv(rsp0, 64)
                sreg = [r for r in s.regions if r.name == 'stack'][0]
                for k in range(8):
                    sreg.bytes[rsp0 - STK + k] = BitVecVal((RET_SENTINEL >> (8 * k)) & 0xff, 8)
                s.r[7] = bv(MGR, 64)
                if op[0] == 's':
                    s.r[6] = bv(J[op[1]]['addr'], 64)
                    fin = E.run(s, V['sub'][bits])
                else:
                    s.r[6] = fresh(64, 'garbage')
                    fin = E.run(s, V['fl'][bits])
                for f in fin:
                    ret = conc(simp(f.r[0]))
                    if ret is None:
                        raise Unsupported('symbolic return value after %s' % (op,))
                    returned[id(f)] = hist + [(step, op, ret)]
                    nxt.append(f)
            states = nxt
    except (Unsupported, BoundExceeded) as e:
        res.obl.append((name, None, 'inconclusive: ' + str(e)[:300], time.time() - t0))
        return res
    res.steps += E.insn_count
    for pi, f in enumerate(states):
        hist = returned[id(f)]
        R = {r.name: r for r in f.regions}
        pre = name + ' path %d/%d ' % (pi + 1, len(states))
        rets = [r for (_, _, r) in hist if r != 0]
        ok = sorted(rets) == sorted(j['addr'] for j in J) and hist[-1][2] == 0
        res.obl.append((pre + 'C02/C05 every submitted job is handed back exactly once, the surplus flush returns NULL', ok, str([(o, hex(r)) for _, o, r in hist])[:300], 0))
        if not ok:
            res.viol.append(('C02:%s:handback' % name, 'jobs handed back: %s' % [hex(r) for r in rets]))
        inner = []
        for i, j in enumerate(J):
            if j['addr'] not in rets:
                continue
            L = j['L']
            msg = [snap['msg%d' % i].get(k) for k in range(L)] if not (sabotage == 'shrink' and i == 0) else [snap['msg0'].get(k) for k in range(L - 1)] + [BitVecVal(0, 8)]
            ks = [rd(snap['ks%d' % i], 16 * k, 16) for k in range(rounds + 1)]
            k1, k2 = rd(snap['skeya%d' % i], 0, 16), rd(snap['skeyb%d' % i], 0, 16)
            if sabotage == 'oracle':
                k1, k2 = k2, k1
            exp, chain = spec_cmac(msg, nbits[i], ks, rounds, k1, k2, taglens[i], empty_is_padded=True)
            inner += chain[:-1]
            got = [R['tag%d' % i].get(k) for k in range(taglens[i])]
            t1 = time.time()
            if same_bytes(got, exp):
                r = unsat
            else:
                r, m = E.check(f, Or(*[g != e for g, e in zip(got, exp)]))
            res.obl.append((pre + 'C02 job %d (%d bits, tag %d): tag == %s(complete-block key / 10* padding key rule) over uninterpreted AES rounds for all message/key bytes' % (i, nbits[i], taglens[i], 'AES-XCBC-MAC-96' if xc else 'AES-CMAC-%d' % bits),
                            (True if r == unsat else (False if r == sat else None)), str(r), time.time() - t1))
            if r == sat:
                res.viol.append(('C02:%s:job%d:tag' % (name, i), 'tag of job %d (%d bits) differs from %s' % (i, nbits[i], 'AES-XCBC-MAC-96' if xc else 'AES-CMAC-%d' % bits)))
            stn = rd(R['jobs'], j['off'] + O['J_status'], 4)
            r, m = E.check(f, stn != (stat0[i] | 2))
            res.obl.append((pre + 'C14 job %d: status == previous | COMPLETED_AUTH' % i, r == unsat, str(r), 0))
            if r != unsat:
                res.viol.append(('C14:%s:job%d:status' % (name, i), 'status of the returned job is not previous|COMPLETED_AUTH'))
        wset = sorted(R['jobs'].written)
        okw = all(any(j['off'] + O['J_status'] <= o < j['off'] + O['J_status'] + 4 for j in J) for o in wset)
        res.obl.append((pre + 'C14 descriptor write set is a subset of the status fields', okw, str(wset[:12]), 0))
        if not okw:
            res.viol.append(('C14:%s:writeset' % name, 'manager wrote job descriptor bytes other than status: offsets %s' % wset[:16]))
        ok = not f.faults
        res.obl.append((pre + 'C07 every access inside the exact-size message / key schedule / sub-key / tag objects, the manager and the stack', ok, str(f.faults[:3]), 0))
        if not ok:
            res.viol.append(('C07:%s' % name, 'access outside the caller objects: %s' % (['%s %s(+%d bytes) at .text+%x' % (x[0], x[4], x[2], x[3] or 0) for x in f.faults[:3]],)))
        if safe_data or sabotage == 'nosafe':
            inner_bytes = [simplify(Extract(8 * k + 7, 8 * k, s_)) for s_ in inner for k in range(16)]

            def raw(term, memo):
                k = term.get_id()
                if k in memo:
                    return memo[k]
                memo[k] = False
                d = term.decl().name()
                if term.num_args() == 0:
                    r_ = (not is_bv_value(term)) and d.startswith(('msg', 'ks', 'skey'))
                elif d.startswith('aes'):
                    r_ = False        # the value went through an AES round chain: neither the key nor the message can be read off it
                else:
                    r_ = any(raw(c, memo) for c in term.children())
                memo[k] = r_
                return r_

            def dirty(term):
                # residue = a message / round-key / sub-key byte that did not pass through AES (this includes M_last ^ K in the scratch
                # block), or a CBC-MAC chaining value of a completed job other than its final value (the untruncated MAC is not key material)
                if is_bv_value(term):
                    return False
                if raw(term, {}):
                    return True
                if 'aes' not in term.sexpr()[:4000]:
                    return False
                if term.size() != 8:
                    return any(dirty(simplify(Extract(8 * k + 7, 8 * k, term))) for k in range(term.size() // 8))
                return any(is_true(simplify(term == fb)) for fb in inner_bytes)
            leaks = []
            for o in range(O['road']):
                if O['in'] <= o < O['in'] + 128 or O['keys'] <= o < O['keys'] + 128:
                    continue          # pointers
                if dirty(R['mgr'].get(o)):
                    leaks.append('mgr+%d' % o)
                    if len(leaks) > 6:
                        break
            for i in range(32):
                if dirty(f.v[i]):
                    leaks.append('zmm%d' % i)
            sr = R['stack']
            for o in sorted(sr.written):
                if o < rsp0 - STK and dirty(sr.get(o)):
                    leaks.append('stack%+d' % (o - (rsp0 - STK)))
                    break
            res.obl.append((pre + 'C13 after all jobs are handed back no message/key-dependent byte is left in the manager (digest, scratch), vector registers or stack frame', not leaks, ','.join(leaks[:8]), 0))
            if leaks:
                res.viol.append(('C13:%s' % name, 'residue after the last job was handed back: %s' % ','.join(leaks[:10])))
    res.queries += E.nq
    res.solver_s += E.tq
    return res


def scenarios(variant, quick, alg='cmac'):
    nl = (XVARIANTS if alg == 'xcbc' else VARIANTS)[variant]['lanes']
    byte_lens = [16, 1, 15, 17, 32, 33, 40, 64, 100, 0, 31, 48, 5, 80, 16, 2, 47]
    if not quick:
        byte_lens += [3, 7, 8, 9, 14, 18, 30, 34, 63, 65, 96, 127, 128, 129, 200, 255, 256, 257]
    out = []
    n = nl + 1
    for i in range(0, len(byte_lens), n):
        ls = byte_lens[i:i + n]
        k = 0
        while len(ls) < n:
            ls.append(byte_lens[(i + n + k) % len(byte_lens)])
            k += 1
        out.append(dict(nbits=[8 * l for l in ls]))
    # position of the strictly smallest lane (first, last, middle, middle+1), every other lane with more and different work
    for j in sorted(set([0, nl - 1, nl // 2, min(nl - 1, nl // 2 + 1)])):
        ls = [16 * (4 + (i % 3)) + (i % 2) * 5 for i in range(nl)]
        ls[j] = 16 * 2 + 3
        out.append(dict(nbits=[8 * l for l in ls] + [8 * 48]))
    if alg == 'cmac':
        out.append(dict(nbits=[3, 129, 127, 135, 77, 260, 8, 1], hoff=0))       # 3GPP bit lengths
    out.append(dict(nbits=[8 * 20, 8 * 7], hoff=5))
    return out


def _task(a):
    import traceback
    variant, bits, kw = a[:3]
    from vlib.core import Ctx
    c = Ctx('asmx_worker', 'quick', 0)
    try:
        r = run_scenario(c, variant, bits, **kw)
        return dict(obl=r.obl, viol=r.viol, steps=r.steps, queries=r.queries, solver_s=r.solver_s, src=r.src, args=a)
    except Exception as e:
        return dict(obl=[('cmac-%d %s %s' % (bits, variant, kw), None, 'engine error: ' + traceback.format_exc()[-400:], 0)], viol=[], steps=0, queries=0, solver_s=0, src={}, args=a)
    finally:
        c.cleanup()


def run_family(ctx, prop):
    from multiprocessing import Pool
    quick = ctx.quick()
    tasks = []
    for variant in VARIANTS:
        for bits in (128, 256):
            for kw in scenarios(variant, quick):
                tasks.append((variant, bits, kw))
    for variant in XVARIANTS:
        for kw in scenarios(variant, quick, 'xcbc'):
            tasks.append((variant, 128, dict(kw, alg='xcbc')))
    if prop == 'C02':
        tasks.append(('sse', 128, dict(nbits=[128, 160], sabotage='oracle')))
    if prop == 'C07':
        tasks.append(('sse', 128, dict(nbits=[160], sabotage='shrink')))
    if prop == 'C13':
        tasks.append(('sse', 128, dict(nbits=[160, 128], safe_data=False, sabotage='nosafe')))
    want = {'C02': (' C02',), 'C04': (' C02 job',), 'C07': (' C07 ',), 'C13': (' C13 ',), 'C14': (' C14 ',)}[prop]
    ctx.bounds['cmac_managers'] = ('submit/flush_job_aes{128,256}_cmac_auth_{x8_sse, avx, vaes_avx512} and submit/flush_job_aes_xcbc_{sse, avx, vaes_avx512} with their real CBC-MAC kernels, from the image of the real reset routine; scripts of lanes+1 '
                                   'submits then flushes; message lengths (bytes) %s, 3GPP bit lengths [3,129,127,135,77,260,8,1]; tag lengths 4/8/12/16; message, round keys, K1/K2 symbolic' %
                                   sorted(set(b // 8 for s in scenarios('sse', quick)[:-2] for b in s['nbits'])))
    tot = dict(steps=0, queries=0)
    with Pool(min(NCPU, max(1, len(tasks)))) as pool:
        for r in pool.imap_unordered(_task, tasks):
            tot['steps'] += r['steps']
            tot['queries'] += r['queries']
            ctx.solver_s += r['solver_s']
            ctx.functions.update(r['src'])
            kw = r['args'][2]
            sab = kw.get('sabotage')
            if sab:
                pfx = {'oracle': 'C02', 'shrink': 'C07', 'nosafe': 'C13'}[sab]
                got = any(k.startswith(pfx) for k, t in r['viol'])
                ctx.add('WITNESS cmac scenario with %s must report a %s violation' % ({'oracle': 'K1/K2 swapped in the reference', 'shrink': 'a message object one byte short',
                                                                                    'nosafe': 'the manager assembled without -DSAFE_DATA'}[sab], pfx),
                        'violated' if got else 'discharged', 0, 'asmx', str(r['obl'][:1])[:200], expect='violated')
                continue
            for name, ok, detail, secs in r['obl']:
                if ok is not None and not any(w in name for w in want):
                    continue
                if prop == 'C04':
                    name = name.replace(' C02 job', ' C04 (co-scheduled with the other jobs of the script) job')
                ctx.add(name, 'discharged' if ok else ('inconclusive' if ok is None else 'violated'), secs, 'asmx', detail)
            for key, text in r['viol']:
                if key.startswith(prop) or (prop == 'C04' and key.startswith('C02') and ':tag' in key):
                    extra = ' (replay: props/asm_cmac.py run_scenario%s' % (r['args'],)
                    if prop == 'C07':
                        extra += '; native: replay_src/cmac_overread_replay.c places the message against an unmapped page'
                    ctx.violation(key, text + extra + ')')
    ctx.extra.setdefault('asmx', {}).update({'cmac_instructions_executed_symbolically': tot['steps'], 'cmac_solver_queries': tot['queries']})
