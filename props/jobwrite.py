"""C14, machine-code side: no assembly routine that receives an IMB_JOB* writes anything of that descriptor except the status word.
Prototypes come from the preprocessed C units (which parameter is the job), the routines from the rebuilt .asm objects; the sweep engine
binds the job parameter to a symbolic base and collects every store at base+constant on every explored path."""
import os, re, time
from multiprocessing import Pool
from vlib.core import *
from vlib.core import run as sh
from vlib import native

DIRS = ['x86_64', 'sse_t1', 'sse_t2', 'sse_t3', 'avx2_t1', 'avx2_t2', 'avx2_t3', 'avx512_t1', 'avx512_t2']


def job_prototypes(ctx):
    """function name -> index of its (only) IMB_JOB* parameter, from gcc -E of every mb_mgr_<variant>.c"""
    protos = {}
    units = []
    for d in DIRS:
        p = os.path.join(LIB, d)
        if os.path.isdir(p):
            units += [os.path.join(p, f) for f in sorted(os.listdir(p)) if re.match(r'mb_mgr_.*\.c$', f)]

    def pre(u):
        rc, o, _, _ = sh(['gcc', '-E', '-P'] + C_DEFS + INCS + [u], timeout=120)
        return o if rc == 0 else ''
    for txt in pool_map(pre, units):
        if isinstance(txt, Exception) or not txt:
            continue
        for m in re.finditer(r'\b([A-Za-z_]\w*)\s*\(([^()]*)\)\s*;', txt):
            name, params = m.group(1), [p.strip() for p in m.group(2).split(',')]
            idx = [i for i, p in enumerate(params) if re.search(r'\bIMB_JOB\s*\*\s*(const\s*)?\w*$', p) and '**' not in p]
            if len(idx) == 1 and idx[0] < 6:
                protos[name] = idx[0]
    return protos


def _work(a):
    path, names, allowed, summ = a
    from vlib.asmx import abi
    from vlib.asmx.decode import Obj
    out = []
    try:
        obj = Obj(path)
    except Exception as e:
        return [dict(name=os.path.basename(path), result='inconclusive', detail='decode failed: %s' % e, object=path)]
    for n, k in names:
        try:
            r = abi.jobwrite_function(obj, n, obj.syms[n][1], k, allowed[0], job_size=allowed[1], summaries=summ)
        except Exception as e:
            import traceback
            r = dict(name=n, result='inconclusive', detail='engine error: ' + traceback.format_exc()[-300:])
        r['object'] = path
        out.append(r)
    return out


def run(ctx, sabotage=True):
    from props import c18
    from vlib.asmx.decode import Obj
    offs = native.offsets(ctx, ['#include "intel-ipsec-mb.h"'], [('status', 'offsetof(IMB_JOB,status)'), ('size', 'sizeof(IMB_JOB)')])
    allowed = [(offs['status'], offs['status'] + 4)]
    protos = job_prototypes(ctx)
    objs = c18.build_objects(ctx, DIRS)
    work = []
    for rel, path in objs:
        try:
            syms = Obj(path).syms
        except Exception:
            continue
        names = [(n, protos[n]) for n, v in syms.items() if n in protos and v[0] != '*UND*' and v[2] == 'FUNC']
        if names:
            work.append((path, names, (allowed, offs['size']), {}))
    ctx.bounds['job_parameter_write_set'] = 'every .asm routine of %s whose C prototype has an IMB_JOB* parameter (%d routines); loops <= 2 symbolic iterations per context' % (','.join(DIRS), sum(len(w[1]) for w in work))
    ctx.assume('machine-code write set: the descriptor object is the one the job parameter points to; a job pointer re-loaded from manager storage '
               '(the job a flush hands back) is not tracked by this sweep (the precise CBC/HMAC manager harnesses cover those)')
    n = 0
    with Pool(NCPU) as pool:
        for rs in pool.imap_unordered(_work, work):
            for r in rs:
                n += 1
                nm = 'C14 %s (%s): every store through the job parameter hits the status word only' % (r['name'], os.path.basename(r.get('object', '')))
                if r['result'] == 'held':
                    ctx.add(nm, 'discharged', r.get('secs', 0), 'asmx', '%d paths, descriptor bytes stored to: %s' % (r.get('paths', 0), r.get('writes', [])))
                elif r['result'] == 'violated':
                    ctx.add(nm, 'violated', r.get('secs', 0), 'asmx', str(r['bad'])[:300])
                    b = r['bad'][0]
                    ctx.violation('jobwrite:%s' % r['name'], '%s alters descriptor byte job+%d (only the status word job+%d..%d may change): "%s" at .text+%x (replay: vlib/asmx/abi.py jobwrite_function on %s)' % (
                        r['name'], b[0], allowed[0][0], allowed[0][1] - 1, b[2], b[1], os.path.basename(r.get('object', ''))))
                else:
                    ctx.add(nm, 'inconclusive', 0, 'asmx', r.get('detail', ''))
    # must-fail twin: a synthetic routine that stores a qword at the status offset (spilling into the next field) must be reported
    wit = os.path.join(ctx.scratch, 'jw_wit.asm')
    open(wit, 'w').write('section .text\nglobal jwfn:function\njwfn:\n mov qword [rsi + %d], 3\n mov rax, rsi\n ret\n' % offs['status'])
    wo = os.path.join(ctx.scratch, 'jw_wit.o')
    rc, o, _, _ = sh(['nasm', '-felf64', '-o', wo, wit])
    got = False
    if rc == 0:
        from vlib.asmx import abi
        ob = Obj(wo)
        r = abi.jobwrite_function(ob, 'jwfn', ob.syms['jwfn'][1], 1, allowed, job_size=offs['size'])
        got = r['result'] == 'violated'
    ctx.add('WITNESS synthetic routine storing a qword at job->status is reported', 'violated' if got else 'discharged', 0, 'asmx', '', expect='violated')
    return n
