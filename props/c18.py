"""C18 — all entry points obey the calling convention on every path (asmx sweep over the machine code of every .asm unit)."""
import os, sys, json, time, re
from multiprocessing import Pool
from vlib.core import *
from vlib.core import run as sh
from vlib.asmx import abi

PROP = 'C18'
_SUMM = {}


def _work(args):
    path, budget, summ, only = args[:4]
    ib = args[4] if len(args) > 4 else 800000
    try:
        return abi.sweep_object(path, time_budget=budget, summaries=summ, only=only, insn_budget=ib)
    except Exception as e:
        return [dict(name=os.path.basename(path), result='inconclusive', detail='worker crash: %s' % e, object=path)]


def build_objects(ctx, dirs):
    rels = []
    for d in dirs:
        p = os.path.join(LIB, d)
        if os.path.isdir(p):
            rels += [d + '/' + f for f in sorted(os.listdir(p)) if f.endswith('.asm')]
    out = pool_map(lambda r: (r, nasm(ctx, r)), rels)
    objs = []
    for r in out:
        if isinstance(r, Exception):
            ctx.inconclusive.append(str(r))
        else:
            objs.append(r)
    return objs


def c_referenced(ctx):
    """Symbols the library's C code references (nm -u over every C unit compiled with the repo flags): the functions that must obey the C ABI."""
    rels = []
    for d in sorted(os.listdir(LIB)):
        p = os.path.join(LIB, d)
        if os.path.isdir(p) and d != 'avx2_t4':
            rels += [d + '/' + f for f in sorted(os.listdir(p)) if f.endswith('.c')]
    objs = [x for x in pool_map(lambda r: cc(ctx, r), rels) if not isinstance(x, Exception)]
    rc, o, _, _ = sh(['nm', '-u'] + objs)
    ref = set(l.split()[-1] for l in o.splitlines() if l.strip() and not l.endswith(':'))
    # plus the exported API list
    try:
        for l in open(os.path.join(LIB, 'libIPSec_MB.def')):
            m = re.match(r'^\s*(\w+)\s+@', l)
            if m:
                ref.add(m.group(1))
    except OSError:
        pass
    return ref, len(objs)


def run(ctx):
    quick = ctx.quick()
    dirs = ['x86_64', 'sse_t1', 'sse_t2', 'sse_t3', 'avx2_t1', 'avx2_t2', 'avx2_t3', 'avx512_t1', 'avx512_t2']   # every variant directory in both tiers
    if os.environ.get('VERIF_DIRS'):
        dirs = os.environ['VERIF_DIRS'].split(',')
    budget = 1200.0   # wall-clock safety net only; the deterministic bound is the instruction budget below
    ibudget = 800000 if quick else 4000000
    ctx.bounds.update({'units': 'every .asm file of ' + ','.join(dirs), 'loop_bound': 'each branch direction at most 2 times per call context on a symbolic condition',
                       'entry_rsp': 'concrete, 8 mod 16; all other registers symbolic', 'instruction_budget_per_function': ibudget})
    ctx.assume('sweep mode: exact semantics for general-purpose/stack/control instructions; SIMD and unmodelled instructions havoc their destination '
               '(over-approximation); both directions of every non-constant branch are followed (superset of feasible paths); a reported path is confirmed '
               'by a z3 query under its path condition')
    ctx.assume('callee contract: an external callee preserves callee-saved registers unless its own sweep shows otherwise (two-pass summaries); '
               'indirect calls are treated as ABI-conforming callees')
    ctx.assume('in scope: functions referenced from the library\'s C code (nm -u of all C units) or exported; asm-internal kernels with a private '
               'register convention are reported in evidence only')
    ctx.outside.append('paths needing more than 2 iterations of a symbolic loop to reach a different epilogue; MXCSR status bits raised by arithmetic (no FP arithmetic instruction is executed: checked)')
    objs = build_objects(ctx, dirs)
    ref, nc = c_referenced(ctx)
    ctx.extra['c_units_compiled_for_reference_set'] = nc
    t0 = time.time()
    summ = {}
    results = {}
    with Pool(NCPU) as pool:
        for rnd in range(3):
            todo = [(rel, path) for rel, path in objs]
            if rnd > 0:
                # re-run only functions that call something with a non-empty clobber summary
                names = set(n for n, r in results.items() if any(c in summ for c in r.get('calls', [])))
                if not names:
                    break
                todo = [(rel, path) for rel, path in objs if any(r.get('object') == path and n in names for n, r in results.items())]
                only = names
            else:
                only = None
            changed = False
            for rs in pool.imap_unordered(_work, [(path, budget, dict(summ), only, ibudget) for rel, path in todo]):
                for r in rs:
                    results[r['name']] = r
            new = {n: r['clobbers'] for n, r in results.items() if r.get('clobbers')}
            if new != summ:
                summ = new
                changed = True
            if not changed:
                break
    wall = time.time() - t0
    nin = nheld = 0
    internal = []
    for n, r in sorted(results.items()):
        inscope = n in ref
        res = r['result']
        if not inscope:
            internal.append('%s:%s' % (n, res))
            continue
        nin += 1
        relobj = os.path.basename(r.get('object', ''))
        name = 'C18 %s (%s)' % (n, relobj)
        if res == 'held':
            nheld += 1
            ctx.add(name, 'discharged', r.get('secs', 0), 'asmx', '%d return paths, %d instructions, %d queries' % (r.get('paths', 0), r.get('steps', 0), r.get('queries', 0)))
        elif res == 'violated':
            ctx.add(name, 'violated', r.get('secs', 0), 'asmx', r['detail'])
            ctx.violation('%s' % n, '%s in %s: %s (replay: python3-vt tools/abi_replay.py <dir>/%s %s re-executes the function and prints the offending paths with the register file at the ret)' % (
                n, relobj, r['detail'], relobj, n))
        else:
            ctx.add(name, 'inconclusive', r.get('secs', 0), 'asmx', r.get('detail', ''))
    ctx.extra.update({'functions_in_scope': nin, 'functions_held': nheld, 'asm_internal_reported_only': internal[:400], 'sweep_wall_s': round(wall, 1),
                      'clobber_summaries_used': {k: v for k, v in list(summ.items())[:100]}})
    ctx.samples += ['%s: all %d explored return paths restore rbx,rbp,r12-r15,rsp; DF clear; no MXCSR/x87 write' % (n, r.get('paths', 0)) for n, r in list(results.items())[:6] if r['result'] == 'held']
    # must-fail witness: a synthetic function that forgets to restore rbx must be reported
    wit = os.path.join(ctx.scratch, 'wit.asm')
    open(wit, 'w').write('section .text\nglobal witfn:function\nwitfn:\n push rbx\n mov rbx, rdi\n add rbx, 1\n cmp rsi, 0\n je .skip\n pop rbx\n.skip:\n ret\n')
    wo = os.path.join(ctx.scratch, 'wit.o')
    rc, o, _, _ = sh(['nasm', '-felf64', '-o', wo, wit])
    rs = abi.sweep_object(wo) if rc == 0 else []
    ctx.add('WITNESS synthetic function skipping a pop on one path is reported', 'violated' if rs and rs[0]['result'] == 'violated' else 'discharged', 0, 'asmx',
            rs[0].get('detail', '') if rs else 'nasm failed', expect='violated')


if __name__ == '__main__':
    main_wrapper(PROP, run)
