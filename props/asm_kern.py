"""Precise asmx harnesses for single-buffer kernels (System V arguments), one run per concrete length (structure-determining),
keys / IV / counter / data fully symbolic, block primitives uninterpreted.  Serves C01 (mode correctness), C07 (exact-size
regions: any access outside [buf, buf+len) faults), C13 (register/stack residue), C11 (key expansion)."""
import os, time
from z3 import (BitVec, BitVecVal, And, Or, Not, If, ULE, ULT, UGE, UGT, Extract, Concat, ZeroExt, simplify, sat, unsat, is_bv_value, LShR)
from vlib.core import *
from vlib.asmx.engine import (Engine, State, Region, bv, simp, conc, fresh, Unsupported, BoundExceeded, AESENC, AESENCLAST, AESDEC, AESDECLAST, AESIMC, SBOX32, RET_SENTINEL)
from vlib.asmx.decode import Obj

IN, OUT, KEYS, IVA, STK, AUX = 0x300000, 0x340000, 0x380000, 0x3c0000, 0x700000, 0x400000
ARGREGS = [7, 6, 2, 1, 8, 9]   # rdi rsi rdx rcx r8 r9


def rd(reg, off, n):
    return simplify(Concat(*reversed([reg.get(off + i) for i in range(n)]))) if n > 1 else reg.get(off)


def blocks(reg, n):
    return [rd(reg, 16 * i, 16) for i in range(n)]


def enc(x, ks, rounds):
    x = x ^ ks[0]
    for i in range(1, rounds):
        x = AESENC(x, ks[i])
    return AESENCLAST(x, ks[rounds])


def dec(x, ks, rounds):
    x = x ^ ks[0]
    for i in range(1, rounds):
        x = AESDEC(x, ks[i])
    return AESDECLAST(x, ks[rounds])


def bswap128_lo32_add(ctr, i):
    """counter block: last 32 bits big-endian incremented by i modulo 2^32, nonce part untouched"""
    b = [Extract(8 * k + 7, 8 * k, ctr) for k in range(16)]      # b[0] = first byte in memory
    c32 = Concat(b[12], b[13], b[14], b[15]) + BitVecVal(i, 32)
    nb = b[:12] + [Extract(31, 24, c32), Extract(23, 16, c32), Extract(15, 8, c32), Extract(7, 0, c32)]
    return Concat(*reversed(nb))


class KResult:
    def __init__(self):
        self.obl, self.viol = [], []
        self.steps = self.queries = 0
        self.solver_s = 0.0
        self.src = {}


def run_kernel(ctx, unit, sym, kind, bits, length, misalign=0, inplace=False, iv_len=16, facets=('C01', 'C07', 'C13'), safe_data=True, res=None, sabotage=None, ctr32=None):
    """kind: cbc_dec | ecb_enc | ecb_dec | cntr | cfb_one.  length in bytes (concrete)."""
    res = res or KResult()
    rounds = {128: 10, 192: 12, 256: 14}[bits]
    drop = () if safe_data else ('-DSAFE_DATA',)
    from vlib.asmx.link import link_units
    out = os.path.join(ctx.scratch, 'k_%s_%d%s.o' % (sym, length, '' if safe_data else '_ns'))
    link_units(ctx, [unit, 'x86_64/const.asm'], out, drop=drop)
    obj = Obj(out)
    res.src.update(ctx.functions)
    t0 = time.time()
    E = Engine(obj, mode='precise', max_steps=200000, loop_bound=64)
    st = State()
    nblk = (length + 15) // 16
    rin = Region('in', IN + misalign, max(length - (1 if sabotage == 'shrink' else 0), 1), writable=inplace)
    rout = rin if inplace else Region('out', OUT + misalign, max(length, 1))
    rks = Region('keys', KEYS, 16 * (rounds + 1), writable=False, secret=True)
    riv = Region('iv', IVA, iv_len, writable=False)
    stk = Region('stack', STK, 4096)
    ro = Region('rodata', obj.RODATA_BASE, max(1, len(obj.rodata)), False, obj.rodata)
    tx = Region('text', obj.TEXT_BASE, max(1, len(obj.text_bytes)), False, obj.text_bytes)
    st.regions = [rin, rks, riv, stk, ro, tx] + ([] if inplace else [rout])
    # data owned by C units (process-wide error code written by SAFE_PARAM checks of direct-API kernels)
    for s_, (sec, val, typ, bind, size) in obj.syms.items():
        if sec == '*UND*' and s_ in ('imb_errno', 'imb_errno_types'):
            st.regions.append(Region(s_, obj.ext_address(s_), 4 if s_ == 'imb_errno' else 256, writable=(s_ == 'imb_errno')))
    rsp0 = STK + 4096 - 8 - 256
    st.r[4] = bv(rsp0, 64)
    for i in range(8):
        stk.bytes[rsp0 - STK + i] = BitVecVal((RET_SENTINEL >> (8 * i)) & 0xff, 8)
    snap_in = rin.clone()
    ks = [rd(rks, 16 * i, 16) for i in range(rounds + 1)]
    if sabotage == 'oracle':
        ks = [ks[1]] + ks[1:]      # must-fail twin: a deliberately wrong reference (whitening with round key 1)
    if ctr32 is not None and iv_len == 16:
        # case split on the 32-bit block counter (big-endian in IV bytes 12..15): concrete start value, nonce still symbolic
        for k in range(4):
            riv.bytes[12 + k] = BitVecVal((ctr32 >> (8 * (3 - k))) & 0xff, 8)
    ivv = rd(riv, 0, iv_len)
    if kind == 'cntr_job':
        # by16 VAES CTR takes the job descriptor: build one with concrete pointers/lengths (src = in - 16 with a 16-byte cipher offset)
        from vlib import native
        JOBA = 0x440000
        fl = ['src', 'dst', 'iv', 'enc_keys', 'msg_len_to_cipher_in_bytes', 'cipher_start_src_offset_in_bytes', 'iv_len_in_bytes']
        offs = native.offsets(ctx, ['#include "intel-ipsec-mb.h"'], [(f, 'offsetof(IMB_JOB, %s)' % f) for f in fl] + [('size', 'sizeof(IMB_JOB)')])
        rjob = Region('job', JOBA, offs['size'], writable=False)
        for f, v in (('src', rin.base - 16), ('dst', rout.base), ('iv', IVA), ('enc_keys', KEYS), ('msg_len_to_cipher_in_bytes', length),
                     ('cipher_start_src_offset_in_bytes', 16), ('iv_len_in_bytes', iv_len)):
            for i in range(8):
                rjob.bytes[offs[f] + i] = BitVecVal((v >> (8 * i)) & 0xff, 8)
        st.regions.append(rjob)
    args = {'cntr_job': [0x440000], 'cbc_dec': [rin.base, IVA, KEYS, rout.base, length], 'ecb_enc': [rin.base, KEYS, rout.base, length], 'ecb_dec': [rin.base, KEYS, rout.base, length],
            'cntr': [rin.base, IVA, KEYS, rout.base, length, iv_len], 'cfb_one': [rout.base, rin.base, IVA, KEYS, length]}[kind]
    for r, a in zip(ARGREGS, args):
        st.r[r] = bv(a, 64)
    init = {i: st.r[i] for i in (3, 5, 12, 13, 14, 15)}
    name = '%s len=%d%s%s%s%s' % (sym, length, ' misaligned' if misalign else '', ' in-place' if inplace else '', ' iv%d' % iv_len if kind in ('cntr', 'cntr_job') else '', ' ctr0=%08x' % ctr32 if ctr32 is not None else '')
    try:
        fin = E.run(st, sym)
        ext = [x for f_ in fin for x in f_.faults if isinstance(x[1], int) and obj.EXT_BASE <= x[1] < obj.EXT_BASE + 0x10000000]
        if ext:
            # data of a unit that was not linked into the harness object: no verdict (neither C01 nor C07) can be read off this run
            raise Unsupported('the kernel reads global data no linked unit defines (unresolved: %s) at .text+%x' % (', '.join(getattr(ctx, 'unresolved', [])[:4]), ext[0][3] or 0))
    except (Unsupported, BoundExceeded) as e:
        res.obl.append((name, None, 'inconclusive: ' + str(e)[:200], time.time() - t0))
        return res
    res.steps += E.insn_count
    for f in fin:
        R = {r.name: r for r in f.regions}
        fo = R['in' if inplace else 'out']
        pin = blocks(snap_in, nblk) if length % 16 == 0 else None
        inb = [snap_in.get(i) for i in range(length)]
        exp = []   # expected output bytes
        if kind == 'cbc_dec':
            prev = ivv
            for b in range(nblk):
                c = rd(snap_in, 16 * b, 16)
                p = dec(c, ks, rounds) ^ prev
                exp += [Extract(8 * k + 7, 8 * k, p) for k in range(16)]
                prev = c
        elif kind in ('ecb_enc', 'ecb_dec'):
            for b in range(nblk):
                c = rd(snap_in, 16 * b, 16)
                p = enc(c, ks, rounds) if kind == 'ecb_enc' else dec(c, ks, rounds)
                exp += [Extract(8 * k + 7, 8 * k, p) for k in range(16)]
        elif kind in ('cntr', 'cntr_job'):
            if iv_len == 12:
                ctr0 = Concat(BitVecVal(0x01000000, 32), ivv)       # nonce || 00 00 00 01 (big-endian counter 1)
            else:
                ctr0 = ivv
            for b in range(nblk):
                kstream = enc(bswap128_lo32_add(ctr0, b), ks, rounds)
                for k in range(16):
                    if 16 * b + k < length:
                        exp.append(Extract(8 * k + 7, 8 * k, kstream) ^ inb[16 * b + k])
        elif kind == 'cfb_one':
            kstream = enc(ivv, ks, rounds)
            for k in range(length):
                exp.append(Extract(8 * k + 7, 8 * k, kstream) ^ inb[k])
        if 'C01' in facets:
            bad = [fo.get(i) != exp[i] for i in range(length)]
            t1 = time.time()
            r, m = E.check(f, Or(*bad)) if bad else (unsat, None)
            res.obl.append((name + ' C01 every output byte equals the mode over UF-AES for all keys/IV/data', r == unsat if r != sat and r != unsat else r == unsat, str(r), time.time() - t1))
            if r == sat:
                res.viol.append(('C01:%s' % name, 'output differs from %s-%d for length %d (solver model available in the replay)' % (kind, bits, length)))
            elif r != unsat:
                res.obl[-1] = (res.obl[-1][0], None, 'solver ' + str(r), res.obl[-1][3])
        if 'C07' in facets:
            ok = not f.faults
            res.obl.append((name + ' C07 every access inside [buf, buf+len), the %d-byte key schedule and the %d-byte IV' % (16 * (rounds + 1), iv_len), ok, str(f.faults[:3]), 0))
            if not ok:
                res.viol.append(('C07:%s' % name, 'access outside the caller objects: %s' % (['%s %s(+%d bytes) at .text+%x' % (x[0], x[4], x[2], x[3] or 0) for x in f.faults[:3]],)))
            if not inplace and R['in'].written:
                res.viol.append(('C07:%s:src' % name, 'source buffer written in out-of-place operation'))
        if 'C18' in facets or True:
            r, m = E.check(f, Or(*[f.r[i] != init[i] for i in init] + [f.r[4] != bv(rsp0 + 8, 64)]))
            if r != unsat:
                res.viol.append(('C18:%s' % name, 'callee-saved registers/rsp not restored'))
        if 'C13' in facets:
            leaks = []
            # a copy of the call's own OUTPUT bytes is not residue (the output is in the caller's buffer anyway): output byte
            # terms are replaced by public placeholders before looking for secret symbols
            from z3 import substitute, BitVec as _BV
            out_terms = [(fo.get(i), _BV('pubout_%d' % i, 8)) for i in range(length) if not is_bv_value(fo.get(i))]
            def tainted(term):
                if is_bv_value(term):
                    return False
                if out_terms:
                    term = simplify(substitute(term, *out_terms))
                    if is_bv_value(term):
                        return False
                s = term.sexpr()
                # decrypt kernels read ciphertext (public): only key-dependent terms (which include every plaintext term) are secret
                return 'keys_' in s or (kind not in ('cbc_dec', 'ecb_dec') and 'in_' in s)
            for i in range(32):
                if tainted(f.v[i]):
                    leaks.append('zmm%d' % i)
            for i in (0, 1, 2, 6, 7, 8, 9, 10, 11):
                # general-purpose registers at KERNEL level: raw key / round-key / plaintext-input bytes are residue; a value that went
                # through the block primitive (cipher state, keystream, output copies used by the byte-granular tail store) is not
                # flagged here: such scratch registers are re-used before the API call returns (native probe replay_src/residue_replay.c)
                if tainted(f.r[i]) and 'aesenc' not in f.r[i].sexpr() and 'aesdec' not in f.r[i].sexpr():
                    leaks.append('gpr%d' % i)
            sr = R['stack']
            for o in sorted(sr.written):
                if o < rsp0 - STK and tainted(sr.get(o)):
                    leaks.append('stack%+d' % (o - (rsp0 - STK)))
                    break
            res.obl.append((name + ' C13 no key/plaintext-dependent term in xmm0-15, caller-saved GPRs, stack frame', not leaks, ','.join(leaks[:8]), 0))
            if leaks:
                res.viol.append(('C13:%s' % name, 'residue after return in %s' % ','.join(leaks[:10])))
    res.queries += E.nq
    res.solver_s += E.tq
    return res


KERNELS = []
for bits in (128, 192, 256):
    KERNELS.append(('sse_t1/aes%d_cbc_dec_by8_sse.asm' % bits, 'aes_cbc_dec_%d_by8_sse' % bits, 'cbc_dec', bits))
    KERNELS.append(('sse_t1/aes%d_ecb_by8_sse.asm' % bits, 'aes_ecb_enc_%d_by8_sse' % bits, 'ecb_enc', bits))
    KERNELS.append(('sse_t1/aes%d_ecb_by8_sse.asm' % bits, 'aes_ecb_dec_%d_by8_sse' % bits, 'ecb_dec', bits))
    KERNELS.append(('sse_t1/aes%d_cntr_by8_sse.asm' % bits, 'aes_cntr_%d_sse' % bits, 'cntr', bits))
    KERNELS.append(('avx2_t1/aes%d_cbc_dec_by8_avx.asm' % bits, 'aes_cbc_dec_%d_avx' % bits, 'cbc_dec', bits))
    KERNELS.append(('avx2_t1/aes%d_ecb_by8_avx.asm' % bits, 'aes_ecb_enc_%d_avx' % bits, 'ecb_enc', bits))
    KERNELS.append(('avx2_t1/aes%d_ecb_by8_avx.asm' % bits, 'aes_ecb_dec_%d_avx' % bits, 'ecb_dec', bits))
    KERNELS.append(('avx2_t1/aes%d_cntr_by8_avx.asm' % bits, 'aes_cntr_%d_avx' % bits, 'cntr', bits))
    # AVX-512 VAES by-16 kernels (the default manager on current server parts); CTR takes the job descriptor
    KERNELS.append(('avx512_t2/aes_cbc_dec_by16_vaes_avx512.asm', 'aes_cbc_dec_%d_vaes_avx512' % bits, 'cbc_dec', bits))
    KERNELS.append(('avx512_t2/aes_ecb_vaes_avx512.asm', 'aes_ecb_enc_%d_vaes_avx512' % bits, 'ecb_enc', bits))
    KERNELS.append(('avx512_t2/aes_ecb_vaes_avx512.asm', 'aes_ecb_dec_%d_vaes_avx512' % bits, 'ecb_dec', bits))
    KERNELS.append(('avx512_t2/aes_cntr_api_by16_vaes_avx512.asm', 'aes_cntr_%d_submit_vaes_avx512' % bits, 'cntr_job', bits))
    # VAES on AVX2 (avx2_t2..t4 managers)
    KERNELS.append(('avx2_t2/aes%d_cntr_vaes_avx2.asm' % bits, 'aes_cntr_%d_vaes_avx2' % bits, 'cntr', bits))
    KERNELS.append(('avx2_t2/aes%d_ecb_vaes_avx2.asm' % bits, 'aes_ecb_enc_%d_vaes_avx2' % bits, 'ecb_enc', bits))
    KERNELS.append(('avx2_t2/aes%d_ecb_vaes_avx2.asm' % bits, 'aes_ecb_dec_%d_vaes_avx2' % bits, 'ecb_dec', bits))
    KERNELS.append(('avx2_t2/aes_cbc_dec_by16_vaes_avx2.asm', 'aes_cbc_dec_%d_vaes_avx2' % bits, 'cbc_dec', bits))
KERNELS.append(('avx2_t1/aes_cfb_avx.asm', 'aes_cfb_128_one_avx', 'cfb_one', 128))
KERNELS.append(('avx2_t1/aes_cfb_avx.asm', 'aes_cfb_256_one_avx', 'cfb_one', 256))
KERNELS.append(('sse_t1/aes_cfb_sse.asm', 'aes_cfb_128_one_sse', 'cfb_one', 128))
KERNELS.append(('sse_t1/aes_cfb_sse.asm', 'aes_cfb_256_one_sse', 'cfb_one', 256))


def lengths(kind, quick, sym=''):
    if kind in ('cbc_dec', 'ecb_enc', 'ecb_dec'):
        if 'vaes' in sym:
            return [16 * k for k in ((1, 3, 8, 15, 16, 17, 33) if quick else list(range(1, 36)) + [48, 49, 64, 65])]
        return [16 * k for k in ((1, 2, 7, 8, 9) if quick else range(1, 19))]
    if kind == 'cntr_job':
        return [1, 15, 16, 17, 63, 65, 129, 255, 256, 257, 300, 495, 497, 513] if quick else sorted(set(list(range(1, 560, 7)) + [255, 256, 257, 272, 495, 496, 497, 511, 512, 513, 1025]))
    if kind == 'cntr':
        return [1, 15, 16, 17, 47, 128, 129, 143] if quick else list(range(1, 290, 1 if False else 3)) + [128, 129, 256, 257, 272]
    if kind == 'cfb_one':
        return [1, 7, 15, 16] if quick else list(range(1, 17))
    return []


def _task(args):
    unit, sym, kind, bits, length, misalign, inplace, iv_len, facets, safe = args[:10]
    sab = args[10] if len(args) > 10 else None
    ctr32 = args[11] if len(args) > 11 else None
    from vlib.core import Ctx
    c = Ctx('asmx_worker', 'quick', 0)
    try:
        r = run_kernel(c, unit, sym, kind, bits, length, misalign, inplace, iv_len, facets, safe, sabotage=sab, ctr32=ctr32)
        return dict(obl=r.obl, viol=r.viol, steps=r.steps, queries=r.queries, solver_s=r.solver_s, src=r.src, args=args, nosafe=not safe, sab=sab)
    except Exception as e:
        import traceback
        return dict(obl=[('%s len=%d' % (sym, length), None, 'engine error: ' + traceback.format_exc()[-300:], 0)], viol=[], steps=0, queries=0, solver_s=0, src={}, args=args, nosafe=not safe)
    finally:
        c.cleanup()


def run_family(ctx, prop):
    from multiprocessing import Pool
    quick = ctx.quick()
    facets = {'C01': ('C01',), 'C07': ('C01', 'C07'), 'C13': ('C13',)}.get(prop)
    if facets is None:
        return
    tasks = []
    for unit, sym, kind, bits in KERNELS:
        if not os.path.exists(os.path.join(LIB, unit)):
            ctx.inconclusive.append('unit %s not found' % unit)
            continue
        ls = lengths(kind, quick, sym)
        for L in ls:
            tasks.append((unit, sym, kind, bits, L, 0, False, 16, facets, True))
            if kind in ('cntr', 'cntr_job'):
                tasks.append((unit, sym, kind, bits, L, 0, False, 12, facets, True))
        if kind in ('cntr', 'cntr_job'):
            # 32-bit block counter near its wrap, longer messages (case split on the counter start; nonce, key, data symbolic):
            # the by8/by16 loops take their carry branch in different iterations
            for L in ((300, 513) if quick else (129, 300, 513, 777, 1024, 1040)):
                for c0 in ((0xfffffff0, 0xffffffe1, 0xffffffff) if quick else (0xfffffff0, 0xffffffe1, 0xffffffff, 0xffffffd5, 0xffffff00, 0xfffffffe, 0x000000ff)):
                    tasks.append((unit, sym, kind, bits, L, 0, False, 16, facets, True, None, c0))
        if prop in ('C07', 'C01'):
            L = ls[len(ls) // 2]
            tasks.append((unit, sym, kind, bits, L, 3, False, 16, facets, True))     # misaligned buffers
            tasks.append((unit, sym, kind, bits, L, 0, True, 16, facets, True))      # in-place
    if prop == 'C01':
        tasks.append(('sse_t1/aes128_ecb_by8_sse.asm', 'aes_ecb_enc_128_by8_sse', 'ecb_enc', 128, 32, 0, False, 16, facets, True, 'oracle'))
    if prop == 'C07':
        tasks.append(('sse_t1/aes128_cbc_dec_by8_sse.asm', 'aes_cbc_dec_128_by8_sse', 'cbc_dec', 128, 48, 0, False, 16, facets, True, 'shrink'))
    if prop == 'C13':
        tasks.append(('sse_t1/aes128_cbc_dec_by8_sse.asm', 'aes_cbc_dec_128_by8_sse', 'cbc_dec', 128, 32, 0, False, 16, facets, False))
    ctx.bounds['aes_single_buffer_kernels'] = 'aes_cbc_dec_*, aes_ecb_{enc,dec}_*, aes_cntr_* (12- and 16-byte IV, symbolic counter incl. wrap) in their SSE by8, AVX by8 and AVX-512 VAES by16 forms, aes_cfb_*_one_{sse,avx}; one run per length ' \
                                              'in %s; keys/IV/counter/data symbolic' % sorted(set(l for k, s in (('cbc_dec', ''), ('cbc_dec', 'vaes'), ('cntr', ''), ('cntr_job', ''), ('cfb_one', '')) for l in lengths(k, quick, s)))[:60]
    tot = dict(steps=0, queries=0)
    with Pool(min(NCPU, max(1, len(tasks)))) as pool:
        for r in pool.imap_unordered(_task, tasks):
            tot['steps'] += r['steps']
            tot['queries'] += r['queries']
            ctx.solver_s += r['solver_s']
            ctx.functions.update(r['src'])
            if r.get('sab'):
                got = any(k.startswith(prop) for k, t in r['viol'])
                ctx.add('WITNESS sabotaged harness (%s) on %s must report a violation' % (r['sab'], r['args'][1]), 'violated' if got else 'discharged', 0, 'asmx', '', expect='violated')
                continue
            if r['nosafe']:
                got = any(k.startswith('C13') for k, t in r['viol'])
                ctx.add('WITNESS aes_cbc_dec_128_by8_sse assembled without -DSAFE_DATA leaves residue (must be reported)', 'violated' if got else 'discharged', 0, 'asmx', '', expect='violated')
                continue
            for name, ok, detail, secs in r['obl']:
                if prop not in name and ok is not None:
                    continue
                ctx.add(name, 'discharged' if ok else ('inconclusive' if ok is None else 'violated'), secs, 'asmx', detail)
            for key, text in r['viol']:
                if key.startswith(prop) or (prop == 'C07' and key.startswith('C01')):
                    ctx.violation(key, text + ' (replay: props/asm_kern.py run_kernel%s)' % (r['args'][:8],))
    ctx.extra.setdefault('asmx', {}).update({'kernel_instructions_executed_symbolically': tot['steps'], 'kernel_solver_queries': tot['queries']})
