"""Precise asmx harness for the multi-buffer HMAC managers (real submit/flush machine code), scenario form:
a manager image produced by the REAL reset routine (ooo_mgr_reset.c compiled natively), then a script of submits and
flushes.  The SIMD block kernel (`call sha1_mult_sse` ...) is replaced by its contract: for every kernel lane, `n` blocks
read at data_ptr[lane] are folded into that lane's digest column with an UNINTERPRETED compression function, and the
pointer advances by n blocks; registers the real kernel does not preserve (measured by a sweep of the real kernel) are
havoc'd.  Serves C02 (tag = HMAC over the uninterpreted compression for all message/key bytes), C04 (lanes independent),
C07 (exact-size message/ipad/opad/tag objects), C13 (SAFE_DATA: no message/key-dependent byte left in the manager) and
C14 (descriptor write set = status)."""
import os, time, re
from z3 import (BitVec, BitVecVal, BitVecSort, Function, And, Or, Not, Extract, Concat, ZeroExt, simplify, sat, unsat, is_bv_value, is_true)
from vlib.core import *
from vlib.core import run as sh
from vlib import native
from vlib.asmx.engine import Engine, State, Region, bv, simp, conc, fresh, Unsupported, BoundExceeded, RET_SENTINEL
from vlib.asmx.decode import Obj

MGR, JOBS, STK, DATA = 0x1500000, 0x1600000, 0x1700000, 0x1800000
SPAN = 0x20000

HASHES = {
    'sha1':   dict(blk=64, ww=32, nw=5, outw=5, be=True, lenb=8, tags=(12, 20), mgr='MB_MGR_HMAC_SHA_1_OOO', reset='ooo_mgr_hmac_sha1_reset', maxl=16, lens16=True),
    'sha224': dict(blk=64, ww=32, nw=8, outw=7, be=True, lenb=8, tags=(14, 28), mgr='MB_MGR_HMAC_SHA_256_OOO', reset='ooo_mgr_hmac_sha224_reset', maxl=16, lens16=True),
    'sha256': dict(blk=64, ww=32, nw=8, outw=8, be=True, lenb=8, tags=(16, 32), mgr='MB_MGR_HMAC_SHA_256_OOO', reset='ooo_mgr_hmac_sha256_reset', maxl=16, lens16=True),
    'sha384': dict(blk=128, ww=64, nw=8, outw=6, be=True, lenb=16, tags=(24, 48), mgr='MB_MGR_HMAC_SHA_512_OOO', reset='ooo_mgr_hmac_sha384_reset', maxl=8, lens16=True),
    'sha512': dict(blk=128, ww=64, nw=8, outw=8, be=True, lenb=16, tags=(32, 64), mgr='MB_MGR_HMAC_SHA_512_OOO', reset='ooo_mgr_hmac_sha512_reset', maxl=8, lens16=True),
    'md5':    dict(blk=64, ww=32, nw=4, outw=4, be=False, lenb=8, tags=(12, 16), mgr='MB_MGR_HMAC_MD5_OOO', reset='ooo_mgr_hmac_md5_reset', maxl=32, lens16=True),
}
# variant -> hash -> (dir, submit file, flush file, kernel file, submit sym, flush sym, kernel sym, manager lanes, kernel lanes)
VARIANTS = {
    'sse': {
        'sha1':   ('sse_t1', 'mb_mgr_hmac_sha1_submit_sse.asm', 'mb_mgr_hmac_sha1_flush_sse.asm', 'sha1_x4_sse.asm', 'submit_job_hmac_sse', 'flush_job_hmac_sse', 'sha1_mult_sse', 4, 4),
        'sha224': ('sse_t1', 'mb_mgr_hmac_sha224_submit_sse.asm', 'mb_mgr_hmac_sha224_flush_sse.asm', 'sha256_mult_sse.asm', 'submit_job_hmac_sha_224_sse', 'flush_job_hmac_sha_224_sse', 'sha_256_mult_sse', 4, 4),
        'sha256': ('sse_t1', 'mb_mgr_hmac_sha256_submit_sse.asm', 'mb_mgr_hmac_sha256_flush_sse.asm', 'sha256_mult_sse.asm', 'submit_job_hmac_sha_256_sse', 'flush_job_hmac_sha_256_sse', 'sha_256_mult_sse', 4, 4),
        'sha384': ('sse_t1', 'mb_mgr_hmac_sha384_submit_sse.asm', 'mb_mgr_hmac_sha384_flush_sse.asm', 'sha512_x2_sse.asm', 'submit_job_hmac_sha_384_sse', 'flush_job_hmac_sha_384_sse', 'sha512_x2_sse', 2, 2),
        'sha512': ('sse_t1', 'mb_mgr_hmac_sha512_submit_sse.asm', 'mb_mgr_hmac_sha512_flush_sse.asm', 'sha512_x2_sse.asm', 'submit_job_hmac_sha_512_sse', 'flush_job_hmac_sha_512_sse', 'sha512_x2_sse', 2, 2),
        'md5':    ('sse_t1', 'mb_mgr_hmac_md5_submit_sse.asm', 'mb_mgr_hmac_md5_flush_sse.asm', 'md5_x4x2_sse.asm', 'submit_job_hmac_md5_sse', 'flush_job_hmac_md5_sse', 'md5_x4x2_sse', 8, 8),
    },
}
VARIANTS['avx2'] = {
    'sha1':   ('avx2_t1', 'mb_mgr_hmac_sha1_submit_avx2.asm', 'mb_mgr_hmac_sha1_flush_avx2.asm', 'sha1_x8_avx2.asm', 'submit_job_hmac_avx2', 'flush_job_hmac_avx2', 'sha1_x8_avx2', 8, 8),
    'sha224': ('avx2_t1', 'mb_mgr_hmac_sha224_submit_avx2.asm', 'mb_mgr_hmac_sha224_flush_avx2.asm', 'sha256_oct_avx2.asm', 'submit_job_hmac_sha_224_avx2', 'flush_job_hmac_sha_224_avx2', 'sha256_oct_avx2', 8, 8),
    'sha256': ('avx2_t1', 'mb_mgr_hmac_sha256_submit_avx2.asm', 'mb_mgr_hmac_sha256_flush_avx2.asm', 'sha256_oct_avx2.asm', 'submit_job_hmac_sha_256_avx2', 'flush_job_hmac_sha_256_avx2', 'sha256_oct_avx2', 8, 8),
    'sha384': ('avx2_t1', 'mb_mgr_hmac_sha384_submit_avx2.asm', 'mb_mgr_hmac_sha384_flush_avx2.asm', 'sha512_x4_avx2.asm', 'submit_job_hmac_sha_384_avx2', 'flush_job_hmac_sha_384_avx2', 'sha512_x4_avx2', 4, 4),
    'sha512': ('avx2_t1', 'mb_mgr_hmac_sha512_submit_avx2.asm', 'mb_mgr_hmac_sha512_flush_avx2.asm', 'sha512_x4_avx2.asm', 'submit_job_hmac_sha_512_avx2', 'flush_job_hmac_sha_512_avx2', 'sha512_x4_avx2', 4, 4),
    'md5':    ('avx2_t1', 'mb_mgr_hmac_md5_submit_avx2.asm', 'mb_mgr_hmac_md5_flush_avx2.asm', 'md5_x8x2_avx2.asm', 'submit_job_hmac_md5_avx2', 'flush_job_hmac_md5_avx2', 'md5_x8x2_avx2', 16, 16),
}
VARIANTS['avx512'] = {
    'sha1':   ('avx512_t1', 'mb_mgr_hmac_sha1_submit_avx512.asm', 'mb_mgr_hmac_sha1_flush_avx512.asm', 'sha1_x16_avx512.asm', 'submit_job_hmac_avx512', 'flush_job_hmac_avx512', 'sha1_x16_avx512', 16, 16),
    'sha224': ('avx512_t1', 'mb_mgr_hmac_sha224_submit_avx512.asm', 'mb_mgr_hmac_sha224_flush_avx512.asm', 'sha256_x16_avx512.asm', 'submit_job_hmac_sha_224_avx512', 'flush_job_hmac_sha_224_avx512', 'sha256_x16_avx512', 16, 16),
    'sha256': ('avx512_t1', 'mb_mgr_hmac_sha256_submit_avx512.asm', 'mb_mgr_hmac_sha256_flush_avx512.asm', 'sha256_x16_avx512.asm', 'submit_job_hmac_sha_256_avx512', 'flush_job_hmac_sha_256_avx512', 'sha256_x16_avx512', 16, 16),
    'sha384': ('avx512_t1', 'mb_mgr_hmac_sha384_submit_avx512.asm', 'mb_mgr_hmac_sha384_flush_avx512.asm', 'sha512_x8_avx512.asm', 'submit_job_hmac_sha_384_avx512', 'flush_job_hmac_sha_384_avx512', 'sha512_x8_avx512', 8, 8),
    'sha512': ('avx512_t1', 'mb_mgr_hmac_sha512_submit_avx512.asm', 'mb_mgr_hmac_sha512_flush_avx512.asm', 'sha512_x8_avx512.asm', 'submit_job_hmac_sha_512_avx512', 'flush_job_hmac_sha_512_avx512', 'sha512_x8_avx512', 8, 8),
}
_UF = {}


def uf(h):
    H = HASHES[h]
    if h not in _UF:
        fam = {'sha224': 'sha256', 'sha384': 'sha512'}.get(h, h)     # SHA-224/384 use the SHA-256/512 compression
        if fam not in _UF:
            _UF[fam] = Function('compress_' + fam, BitVecSort(H['nw'] * H['ww']), BitVecSort(8 * H['blk']), BitVecSort(H['nw'] * H['ww']))
        _UF[h] = _UF[fam]
    return _UF[h]


def rd(reg, off, n):
    return simplify(Concat(*reversed([reg.get(off + i) for i in range(n)]))) if n > 1 else reg.get(off)


def cat(bs):
    """little-endian load of a byte list: byte 0 is least significant"""
    return simplify(Concat(*reversed(bs))) if len(bs) > 1 else bs[0]


def bytes_of(x, n):
    return [simplify(Extract(8 * i + 7, 8 * i, x)) for i in range(n)]


def bswap(x, nbytes):
    return cat(list(reversed(bytes_of(x, nbytes))))


def md_pad(H, msg, prefix_len):
    """msg: list of byte terms; returns the padded byte list (message is preceded by prefix_len already-hashed bytes)"""
    L = len(msg)
    bits = 8 * (prefix_len + L)
    out = list(msg) + [BitVecVal(0x80, 8)]
    while (len(out) + H['lenb']) % H['blk']:
        out.append(BitVecVal(0, 8))
    lb = [(bits >> (8 * i)) & 0xff for i in range(H['lenb'])]      # little-endian byte list of the length
    if H['be']:
        lb = list(reversed(lb))
    return out + [BitVecVal(b, 8) for b in lb]


def same_bytes(got, exp):
    """True iff the two byte lists are equal for all values, decided without the solver: syntactically after simplification, else by
    the exact XOR / extract / concat / uninterpreted-function normal form of vlib/asmx/engine.py (NotLinear -> undecided -> False)"""
    from vlib.asmx.engine import xor_normal_form, NotLinear
    todo = [(g, e) for g, e in zip(got, exp) if not is_true(simplify(g == e))]
    if not todo:
        return True
    try:
        nf = xor_normal_form([x for p_ in todo for x in p_])
        return all(nf[2 * i] == nf[2 * i + 1] for i in range(len(todo)))
    except (NotLinear, RecursionError):
        return False


def raw_secret(term, memo=None):
    """does the term contain a message / ipad / opad byte that did not pass through the compression function?"""
    memo = {} if memo is None else memo
    k = term.get_id()
    if k in memo:
        return memo[k]
    memo[k] = False
    d = term.decl().name() if term.num_args() or True else ''
    if term.num_args() == 0:
        r = (not is_bv_value(term)) and bool(re.match(r'(msg|ipad|opad)\d+_', d))
    elif d.startswith('compress_'):
        r = False
    else:
        r = any(raw_secret(c, memo) for c in term.children())
    memo[k] = r
    return r


def spec_tag(h, msg, ipad, opad, taglen, want_state=False):
    """HMAC tag over the uninterpreted compression: ipad/opad are the precomputed states (native words as the helper stores them)."""
    H = HASHES[h]
    F = uf(h)
    wb = H['ww'] // 8
    st = cat(ipad)       # nw native words, word 0 lowest
    p = md_pad(H, msg, H['blk'])
    chain = []
    for b in range(len(p) // H['blk']):
        st = F(st, cat(p[b * H['blk']:(b + 1) * H['blk']]))
        chain.append(st)
    words = [Extract(H['ww'] * (i + 1) - 1, H['ww'] * i, st) for i in range(H['nw'])]
    inner = []
    for w in words[:H['outw']]:
        bs = bytes_of(w, wb)
        inner += list(reversed(bs)) if H['be'] else bs
    p2 = md_pad(H, inner, H['blk'])
    assert len(p2) == H['blk']
    st2 = F(cat(opad), cat(p2))
    words2 = [Extract(H['ww'] * (i + 1) - 1, H['ww'] * i, st2) for i in range(H['nw'])]
    out = []
    for w in words2:
        bs = bytes_of(w, wb)
        out += list(reversed(bs)) if H['be'] else bs
    if want_state:
        return [simplify(x) for x in out[:taglen]], chain
    return [simplify(x) for x in out[:taglen]]


_img_cache = {}


def reset_image(ctx, h, lanes, H=None):
    """bytes of the manager below the road block after the REAL reset routine ran on 0xA5-filled memory (native run)"""
    key = (h, lanes)
    if key in _img_cache:
        return _img_cache[key]
    H = H or HASHES[h]
    src = os.path.join(ctx.scratch, 'reset_%s_%d.c' % (h, lanes))
    with open(src, 'w') as f:
        f.write('#include <stdio.h>\n#include <stdlib.h>\n#include <string.h>\n#include <stddef.h>\n#include "intel-ipsec-mb.h"\n#include "include/ipsec_ooo_mgr.h"\n'
                'void %s(void *, const unsigned);\n'
                'int main(void){ %s *m = aligned_alloc(64, (sizeof(*m)+63)&~63ul); memset(m, 0xA5, sizeof(*m)); %s(m, %d);\n'
                ' size_t n = offsetof(%s, road_block); const unsigned char *p=(const unsigned char*)m; for (size_t i=0;i<n;i++) printf("%%02x", p[i]); printf("\\n"); return 0; }\n'
                % (H['reset'], H['mgr'], H['reset'], lanes, H['mgr']))
    exe = src[:-2] + '.exe'
    rc, o, _, _ = sh(['gcc', '-w', '-O1'] + C_DEFS + INCS + ['-o', exe, src, os.path.join(LIB, 'x86_64', 'ooo_mgr_reset.c')], timeout=120)
    if rc != 0:
        raise Inconclusive('reset image build failed: ' + o[-400:])
    rc, o, _, _ = sh([exe])
    img = bytes.fromhex(o.strip().splitlines()[-1])
    ctx.note_source('lib/x86_64/ooo_mgr_reset.c')
    _img_cache[key] = img
    return img


def offsets(ctx, h):
    H = HASHES[h]
    lane_t = 'HMAC_SHA512_LANE_DATA' if H['blk'] == 128 else 'HMAC_SHA1_LANE_DATA'
    items = [('digest', 'offsetof(%s,args.digest)' % H['mgr']), ('data_ptr', 'offsetof(%s,args.data_ptr)' % H['mgr']), ('lens', 'offsetof(%s,lens)' % H['mgr']),
             ('unused', 'offsetof(%s,unused_lanes)' % H['mgr']), ('ldata', 'offsetof(%s,ldata)' % H['mgr']), ('road', 'offsetof(%s,road_block)' % H['mgr']),
             ('LD_SZ', 'sizeof(%s)' % lane_t), ('LD_extra', 'offsetof(%s,extra_block)' % lane_t), ('LD_job', 'offsetof(%s,job_in_lane)' % lane_t),
             ('LD_outer', 'offsetof(%s,outer_block)' % lane_t), ('LD_extra_sz', 'sizeof(((%s*)0)->extra_block)' % lane_t),
             ('JOB_SZ', 'sizeof(IMB_JOB)'), ('J_src', 'offsetof(IMB_JOB,src)'), ('J_hoff', 'offsetof(IMB_JOB,hash_start_src_offset_in_bytes)'),
             ('J_hlen', 'offsetof(IMB_JOB,msg_len_to_hash_in_bytes)'), ('J_tag', 'offsetof(IMB_JOB,auth_tag_output)'), ('J_taglen', 'offsetof(IMB_JOB,auth_tag_output_len_in_bytes)'),
             ('J_ipad', 'offsetof(IMB_JOB,u.HMAC._hashed_auth_key_xor_ipad)'), ('J_opad', 'offsetof(IMB_JOB,u.HMAC._hashed_auth_key_xor_opad)'), ('J_status', 'offsetof(IMB_JOB,status)')]
    return native.offsets(ctx, ['#include "intel-ipsec-mb.h"', '#include "include/ipsec_ooo_mgr.h"'], items)


def preserved_gprs(obj, sym):
    """GPRs the real kernel provably leaves unchanged on every explored path (sweep of the real kernel); the stub havocs the rest"""
    from vlib.asmx import abi
    from vlib.asmx.engine import reset_size_cache
    reset_size_cache()
    E = Engine(obj, mode='sweep', max_steps=400000, loop_bound=2)
    E.memo = {}
    E.called = set()
    E.summaries = {}
    E.stubs['*'] = abi.abi_stub
    st, rsp0 = abi.fresh_state(obj, 0)
    init = list(st.r)
    fin = abi.run_with_budget(E, st, obj.syms[sym][1], time.time() + 1800, 400000)
    if not fin:
        raise Inconclusive('kernel sweep of %s found no return path' % sym)
    keep = set(range(16)) - {4}
    for f in fin:
        for i in list(keep):
            r, _ = E.check(f, f.r[i] != init[i])
            if r != unsat:
                keep.discard(i)
    return keep


class KernelOverrun(Exception):
    pass


class HResult:
    def __init__(self):
        self.obl, self.viol = [], []
        self.steps = self.queries = 0
        self.solver_s = 0.0
        self.src = {}


def run_scenario(ctx, variant, h, lengths, script=None, taglens=None, hoff=0, safe_data=True, res=None, sabotage=None):
    """lengths: message length of each job (concrete).  script: list of ('s', job index) / ('f',); default = submit all, flush until
    every job came back plus one more flush that must return NULL."""
    res = res or HResult()
    H = HASHES[h]
    d, fsub, ffl, fk, ssub, sfl, sk, nl, kl = VARIANTS[variant][h]
    O = offsets(ctx, h)
    drop = () if safe_data else ('-DSAFE_DATA',)
    from vlib.asmx.link import link_units
    units = []
    for f in (fsub, ffl, fk):
        u = '%s/%s' % (d, f)
        if u not in units:
            units.append(u)
    out = os.path.join(ctx.scratch, 'hmac_%s_%s%s.o' % (variant, h, '' if safe_data else '_ns'))
    link_units(ctx, units + ['x86_64/const.asm'], out, drop=drop)
    obj = Obj(out)
    res.src.update(ctx.functions)
    keep = preserved_gprs(obj, sk)
    img = reset_image(ctx, h, nl)
    nj = len(lengths)
    taglens = taglens or [H['tags'][i % 2] for i in range(nj)]
    script = script or ([('s', i) for i in range(nj)] + [('f',)] * (nj + 1))
    name = 'hmac-%s %s lens=%s tags=%s%s' % (h, variant, list(lengths), list(taglens), ' hoff=%d' % hoff if hoff else '')
    t0 = time.time()
    E = Engine(obj, mode='precise', max_steps=400000, loop_bound=64)
    st = State()
    mgr = Region('mgr', MGR, O['road'], True, img)
    jobs = Region('jobs', JOBS, nj * O['JOB_SZ'])
    stk = Region('stack', STK, 4096)
    ro = Region('rodata', obj.RODATA_BASE, max(1, len(obj.rodata)), False, obj.rodata)
    tx = Region('text', obj.TEXT_BASE, max(1, len(obj.text_bytes)), False, obj.text_bytes)
    st.regions = [mgr, jobs, stk, ro, tx]
    sb = H['nw'] * H['ww'] // 8
    J = []
    for i, L in enumerate(lengths):
        base = DATA + i * SPAN
        rmsg = Region('msg%d' % i, base + hoff, L - (1 if sabotage == 'shrink' and i == 0 else 0), writable=False, secret=True)
        rip = Region('ipad%d' % i, base + 0x10000, sb, writable=False, secret=True)
        rop = Region('opad%d' % i, base + 0x11000, sb, writable=False, secret=True)
        rtag = Region('tag%d' % i, base + 0x12000, taglens[i])
        st.regions += [rmsg, rip, rop, rtag]
        oj = i * O['JOB_SZ']
        for f, v in (('J_src', base), ('J_hoff', hoff), ('J_hlen', L), ('J_tag', rtag.base), ('J_taglen', taglens[i]), ('J_ipad', rip.base), ('J_opad', rop.base)):
            for k in range(8):
                jobs.bytes[oj + O[f] + k] = BitVecVal((v >> (8 * k)) & 0xff, 8)
        J.append(dict(msg=rmsg, ipad=rip, opad=rop, tag=rtag, addr=JOBS + oj, off=oj))
    snap = {r.name: r.clone() for r in st.regions}
    stat0 = [rd(jobs, j['off'] + O['J_status'], 4) for j in J]
    F = uf(h)
    wb = H['ww'] // 8
    row = H['maxl'] * wb

    def kernel_stub(E_, s, target):
        n = conc(simp(s.r[6]))
        if n is not None and n > 2048:
            # far more blocks than any job of the script has left: the lane lengths were corrupted (e.g. a wrapped 16-bit subtraction) and
            # the real kernel would read n blocks beyond every lane's buffer
            raise KernelOverrun('the manager asks the block kernel for %d blocks although no lane of the script has more than %d left' % (n, max(lengths) // H['blk'] + 3))
        if n is None or n < 1:
            raise Unsupported('kernel called with a non-concrete / zero block count %s' % s.r[6])
        m = [r for r in s.regions if r.name == 'mgr'][0]
        for lane in range(kl):
            p = conc(simp(rd(m, O['data_ptr'] + 8 * lane, 8)))
            if p is None:
                raise Unsupported('symbolic data pointer in lane %d' % lane)
            words = [rd(m, O['digest'] + w * row + lane * wb, wb) for w in range(H['nw'])]
            stt = simplify(Concat(*reversed(words)))
            for b in range(n):
                blk = E_.load(s, bv(p + b * H['blk'], 64), H['blk'], None)
                stt = F(stt, blk)
            for w in range(H['nw']):
                E_.store(s, bv(MGR + O['digest'] + w * row + lane * wb, 64), wb, Extract(H['ww'] * (w + 1) - 1, H['ww'] * w, stt), None)
            E_.store(s, bv(MGR + O['data_ptr'] + 8 * lane, 64), 8, bv(p + n * H['blk'], 64), None)
        for i in range(16):
            if i != 4 and i not in keep:
                s.r[i] = fresh(64, 'kclob')
        for i in range(32):
            s.v[i] = fresh(512, 'kvec')       # the kernel leaves message schedule / state words in vector registers
        s.flags = None
    E.stubs[obj.syms[sk][1]] = kernel_stub

    rsp0 = STK + 4096 - 8 - 256
    states = [st]
    returned = {id(st): []}
    log = []
    try:
        for step, op in enumerate(script):
            nxt = []
            for s in states:
                hist = returned.pop(id(s))
                s.r[4] = bv(rsp0, 64)
                sreg = [r for r in s.regions if r.name == 'stack'][0]
                for k in range(8):
                    sreg.bytes[rsp0 - STK + k] = BitVecVal((RET_SENTINEL >> (8 * k)) & 0xff, 8)
                s.r[7] = bv(MGR, 64)
                if op[0] == 's':
                    s.r[6] = bv(J[op[1]]['addr'], 64)
                    fin = E.run(s, ssub)
                else:
                    s.r[6] = fresh(64, 'garbage')
                    fin = E.run(s, sfl)
                for f in fin:
                    ret = conc(simp(f.r[0]))
                    if ret is None:
                        raise Unsupported('symbolic return value after %s' % (op,))
                    returned[id(f)] = hist + [(step, op, ret)]
                    nxt.append(f)
            states = nxt
    except KernelOverrun as e:
        res.obl.append((name + ' C02 lane lengths stay consistent with the jobs of the script', False, str(e), time.time() - t0))
        res.obl.append((name + ' C07 the block kernel is never asked to read beyond the lanes\' buffers', False, str(e), 0))
        res.viol.append(('C02:%s:job:tag' % name, str(e) + ': co-scheduled jobs skip message blocks / read far past their buffers'))
        res.viol.append(('C07:%s' % name, str(e)))
        return res
    except (Unsupported, BoundExceeded) as e:
        res.obl.append((name, None, 'inconclusive: ' + str(e)[:300], time.time() - t0))
        return res
    res.steps += E.insn_count
    for pi, f in enumerate(states):
        hist = returned[id(f)]
        R = {r.name: r for r in f.regions}
        pre = name + ' path %d/%d ' % (pi + 1, len(states))
        # ---- every job handed back exactly once, the surplus flush returns NULL
        rets = [r for (_, _, r) in hist if r != 0]
        addr2job = {j['addr']: i for i, j in enumerate(J)}
        submitted = [op[1] for op in script if op[0] == 's']
        ok = sorted(rets) == sorted(J[i]['addr'] for i in submitted) and all(r in addr2job for r in rets)
        if script[-1][0] == 'f' and hist[-1][2] != 0 and len([o for o in script if o[0] == 'f']) > len(submitted):
            ok = False
        res.obl.append((pre + 'C02/C05 every submitted job is handed back exactly once, the surplus flush returns NULL', ok, str([(o, hex(r)) for _, o, r in hist]), 0))
        if not ok:
            res.viol.append(('C02:%s:handback' % name, 'jobs handed back: %s for script %s' % ([hex(r) for r in rets], script)))
        inner_bytes = []
        # ---- tag and status of every returned job
        for i in submitted:
            if J[i]['addr'] not in rets:
                continue
            msg = [snap['msg%d' % i].get(k) for k in range(lengths[i])] if sabotage != 'shrink' or i else [snap['msg0'].get(k) for k in range(lengths[0] - 1)] + [BitVecVal(0, 8)]
            ipad = [snap['ipad%d' % i].get(k) for k in range(sb)]
            opad = [snap['opad%d' % i].get(k) for k in range(sb)]
            if sabotage == 'oracle':
                ipad, opad = opad, ipad
            exp, chain = spec_tag(h, msg, ipad, opad, taglens[i], want_state=True)
            for stt in chain:        # keyed inner chaining values of the completed job (incl. the inner digest): derived key material
                for k in range(sb):
                    inner_bytes.append(simplify(Extract(8 * k + 7, 8 * k, stt)))
            got = [R['tag%d' % i].get(k) for k in range(taglens[i])]
            t1 = time.time()
            if same_bytes(got, exp):
                r = unsat
            else:
                r, m = E.check(f, Or(*[g != e for g, e in zip(got, exp)]))
            res.obl.append((pre + 'C02 job %d (len %d, tag %d): tag == HMAC-%s over the uninterpreted compression for all message/ipad/opad bytes' % (i, lengths[i], taglens[i], h),
                            (True if r == unsat else (False if r == sat else None)), str(r), time.time() - t1))
            if r == sat:
                res.viol.append(('C02:%s:job%d:tag' % (name, i), 'tag of job %d (length %d) differs from HMAC-%s(ipad,opad,msg) over the uninterpreted compression' % (i, lengths[i], h)))
            stn = rd(R['jobs'], J[i]['off'] + O['J_status'], 4)
            r, m = E.check(f, stn != (stat0[i] | 2))
            res.obl.append((pre + 'C14 job %d: status == previous | COMPLETED_AUTH' % i, r == unsat, str(r), 0))
            if r != unsat:
                res.viol.append(('C14:%s:job%d:status' % (name, i), 'status of the returned job is not previous|COMPLETED_AUTH'))
        # ---- descriptor write set
        wset = sorted(R['jobs'].written)
        okw = all(any(j['off'] + O['J_status'] <= o < j['off'] + O['J_status'] + 4 for j in J) for o in wset)
        res.obl.append((pre + 'C14 descriptor write set is a subset of the status fields', okw, str(wset[:12]), 0))
        if not okw:
            res.viol.append(('C14:%s:writeset' % name, 'manager wrote job descriptor bytes other than status: offsets %s' % wset[:16]))
        # ---- C07
        ok = not f.faults
        res.obl.append((pre + 'C07 every access inside the exact-size message / ipad / opad / tag objects, the manager and the stack', ok, str(f.faults[:3]), 0))
        if not ok:
            res.viol.append(('C07:%s' % name, 'access outside the caller objects: %s' % (['%s %s(+%d bytes) at .text+%x' % (x[0], x[4], x[2], x[3] or 0) for x in f.faults[:3]],)))
        # ---- C13: nothing derived from message / key material of the completed jobs remains in the manager, registers, stack
        if safe_data or sabotage == 'nosafe':
            def dirty(term):
                if is_bv_value(term):
                    return False
                # residue = a raw message / ipad / opad byte (not passed through the compression), or a byte of a keyed inner chaining
                # value of a completed job.  Other compression outputs (the final HMAC state words beyond a truncated digest, hashes an
                # idle lane computed over a neighbour's blocks) are neither key material nor plaintext.
                if raw_secret(term):
                    return True
                if 'compress_' not in term.sexpr():
                    return False
                if term.size() != 8:
                    return any(dirty(simplify(Extract(8 * k + 7, 8 * k, term))) for k in range(term.size() // 8))
                return any(is_true(simplify(term == fb)) for fb in inner_bytes)
            leaks = []
            for o in range(O['road']):
                if o >= O['data_ptr'] and o < O['data_ptr'] + 8 * H['maxl']:
                    continue
                if dirty(R['mgr'].get(o)):
                    leaks.append('mgr+%d' % o)
                    if len(leaks) > 6:
                        break
            for i in range(32):
                if dirty(f.v[i]):
                    leaks.append('zmm%d' % i)
            sr = R['stack']
            for o in sorted(sr.written):
                if o < rsp0 - STK and dirty(sr.get(o)):
                    leaks.append('stack%+d' % (o - (rsp0 - STK)))
                    break
            res.obl.append((pre + 'C13 after all jobs are handed back no message/key/digest-dependent byte is left in the manager, vector registers or stack frame', not leaks, ','.join(leaks[:8]), 0))
            if leaks:
                res.viol.append(('C13:%s' % name, 'residue after the last job was handed back: %s' % ','.join(leaks[:10])))
    res.queries += E.nq
    res.solver_s += E.tq
    return res


def scenarios(h, quick, variant='sse'):
    H = HASHES[h]
    nl = VARIANTS[variant][h][7]
    if H['blk'] == 64:
        pool = [1, 55, 56, 63, 64, 65, 119, 120, 128, 200]
        extra = [2, 9, 17, 31, 54, 57, 62, 66, 100, 118, 121, 127, 129, 183, 184, 191, 192, 193, 255, 256, 257, 1000]
    else:
        pool = [1, 111, 112, 127, 128, 129, 239, 240, 256, 300]
        extra = [2, 17, 64, 110, 113, 126, 130, 200, 238, 241, 255, 257, 367, 368, 383, 384, 385, 1000]
    if not quick:
        pool = pool + extra
    n = nl + 1                       # one more job than lanes: the submit path completes jobs, the flush path the rest
    out = []
    for i in range(0, len(pool), n):
        ls = pool[i:i + n]
        k = 0
        while len(ls) < n:           # fill up to lanes+1 jobs so that the submit path completes one
            ls.append(pool[(i + n + k) % len(pool)])
            k += 1
        out.append(dict(lengths=ls))
    # position of the minimum: managers search the minimum per half / with lane-indexed masks, so the lane holding the strictly smallest
    # block count is moved through the lanes (first, last, middle, middle+1) while every other lane has more (and different) work
    if nl >= 4:
        blk = H['blk']
        for j in sorted(set([0, nl - 1, nl // 2, min(nl - 1, nl // 2 + 1)])):
            ls = [blk * (3 + (i % 3)) + (i % 2) * 7 for i in range(nl)]
            ls[j] = blk + 5
            out.append(dict(lengths=ls + [2 * blk]))
    out.append(dict(lengths=[20, 7], hoff=3))
    out.append(dict(lengths=[pool[1]], taglens=[H['tags'][1]]))
    return out


def _task(a):
    import traceback
    variant, h, kw = a
    from vlib.core import Ctx
    c = Ctx('asmx_worker', 'quick', 0)
    try:
        r = run_scenario(c, variant, h, **kw)
        return dict(obl=r.obl, viol=r.viol, steps=r.steps, queries=r.queries, solver_s=r.solver_s, src=r.src, args=(variant, h, kw))
    except Exception as e:
        return dict(obl=[('hmac-%s %s %s' % (h, variant, kw), None, 'engine error: ' + traceback.format_exc()[-400:], 0)], viol=[], steps=0, queries=0, solver_s=0, src={}, args=(variant, h, kw))
    finally:
        c.cleanup()


def run_family(ctx, prop):
    """prop in C02, C04, C07, C13, C14: the scenarios are the same, each property takes its own obligations"""
    from multiprocessing import Pool
    quick = ctx.quick()
    tasks = []
    for variant in VARIANTS:
        for h in VARIANTS[variant]:
            for kw in scenarios(h, quick, variant):
                tasks.append((variant, h, kw))
    if prop == 'C02':
        tasks.append(('sse', 'sha1', dict(lengths=[20, 70], sabotage='oracle')))
    if prop == 'C07':
        tasks.append(('sse', 'sha256', dict(lengths=[70], sabotage='shrink')))
    if prop == 'C13':
        tasks.append(('sse', 'sha1', dict(lengths=[20, 70], safe_data=False, sabotage='nosafe')))
    want = {'C02': (' C02',), 'C04': (' C02 job',), 'C07': (' C07 ',), 'C13': (' C13 ',), 'C14': (' C14 ',)}[prop]
    ctx.bounds['hmac_managers'] = ('submit/flush_job_hmac_{md5,sha1,sha_224,sha_256,sha_384,sha_512}_{sse,avx2,avx512} (real machine code; x4/x2/x4x2, x8/x4/x8x2, x16/x8 lanes) from the image the real reset routine produces; '
                                   'scripts of lanes+1 submits then flushes; message lengths %s (+ offset 3); both tag lengths; every message/ipad/opad byte symbolic' %
                                   sorted(set(l for h in ('sha1', 'sha512') for s in scenarios(h, quick) for l in s['lengths'])))
    ctx.assume('HMAC managers: the SIMD block kernel called by the manager (sha1_mult_sse, sha_256_mult_sse, sha512_x2_sse, md5_x4x2_sse) is replaced by its contract - per lane, n blocks at '
               'data_ptr are folded into the digest column by an uninterpreted compression function and data_ptr advances - and clobbers every register the real kernel does not provably preserve '
               '(sweep of the real kernel, each run); the reference is HMAC over the same uninterpreted function')
    tot = dict(steps=0, queries=0)
    with Pool(min(NCPU, max(1, len(tasks)))) as pool:
        for r in pool.imap_unordered(_task, tasks):
            tot['steps'] += r['steps']
            tot['queries'] += r['queries']
            ctx.solver_s += r['solver_s']
            ctx.functions.update(r['src'])
            kw = r['args'][2]
            sab = kw.get('sabotage')
            if sab:
                pfx = {'oracle': 'C02', 'shrink': 'C07', 'nosafe': 'C13'}[sab]
                got = any(k.startswith(pfx) for k, t in r['viol'])
                ctx.add('WITNESS hmac-%s scenario with %s must report a %s violation' % (r['args'][1], {'oracle': 'ipad/opad swapped in the reference', 'shrink': 'a message object one byte short',
                                                                                                    'nosafe': 'the manager assembled without -DSAFE_DATA'}[sab], pfx),
                        'violated' if got else 'discharged', 0, 'asmx', str(r['obl'][:1])[:200], expect='violated')
                continue
            for name, ok, detail, secs in r['obl']:
                if ok is not None and not any(w in name for w in want):
                    continue
                if prop == 'C04':
                    name = name.replace(' C02 job', ' C04 (co-scheduled with the other jobs of the script) job')
                ctx.add(name, 'discharged' if ok else ('inconclusive' if ok is None else 'violated'), secs, 'asmx', detail)
            for key, text in r['viol']:
                if key.startswith(prop) or (prop == 'C04' and key.startswith('C02') and ':tag' in key):
                    extra = ' (replay: props/asm_hmac.py run_scenario%s' % (r['args'],)
                    if prop == 'C13':
                        extra += '; native: replay_src/hmac_residue_replay.c scans the manager for the inner digest after the job is handed back'
                    ctx.violation(key, text + extra + ')')
    ctx.extra.setdefault('asmx', {}).update({'hmac_instructions_executed_symbolically': tot['steps'], 'hmac_solver_queries': tot['queries']})
