"""C06 — every permitted cipher x hash suite runs exactly the named algorithms (also serves C09's burst==job dispatch)."""
import os, re, sys, json
from vlib.core import *
from vlib.core import run as sh
from props.ring import ARCH_FILES
from props import l1

PROP = 'C06'

# permitted (cipher_mode name, key sizes) — mirrors the documented key-size rules (same table as cbmc/jobcheck_light.c)
CIPHERS = {
    'CBC': (1, [16, 24, 32]), 'CNTR': (2, [16, 24, 32]), 'NULL': (3, [16]), 'DOCSIS_SEC_BPI': (4, [16, 32]), 'GCM': (5, [16, 24, 32]),
    'DES': (7, [8]), 'DOCSIS_DES': (8, [8]), 'CCM': (9, [16, 32]), 'DES3': (10, [24]), 'PON_AES_CNTR': (11, [16]),
    'ECB': (12, [16, 24, 32]), 'CNTR_BITLEN': (13, [16, 24, 32]), 'ZUC_EEA3': (14, [16, 32]), 'SNOW3G_UEA2_BITLEN': (15, [16]),
    'KASUMI_UEA1_BITLEN': (16, [16]), 'CBCS_1_9': (17, [16]), 'CHACHA20': (18, [32]), 'CHACHA20_POLY1305': (19, [32]),
    'CHACHA20_POLY1305_SGL': (20, [32]), 'SNOW_V': (21, [32]), 'SNOW_V_AEAD': (22, [32]), 'GCM_SGL': (23, [16, 24, 32]),
    'SM4_ECB': (24, [16]), 'SM4_CBC': (25, [16]), 'CFB': (26, [16, 24, 32]), 'SM4_CNTR': (27, [16]), 'SM4_GCM': (28, [16]),
}
HELPERS = r'^(memcpy|memset|memcmp|imb_clear_mem|clear_mem\w*|safe_memcpy\w*|force_memset_zero\w*|clear_scratch_\w+|memcpy_fn_\w+)$'


def cipher_rule(name, key, d):
    """(core regex list: at least one leaf must match one of them; allowed regex list: every leaf must match core|allowed|helper)."""
    b = key * 8
    dd = 'enc' if d == 1 else 'dec'
    A = lambda *x: [s.format(b=b, d=dd) for s in x]
    R = {
        'CBC': (A(r'aes{b}_enc', r'aes_cbc_enc_{b}', r'aes{b}_cbc_enc') if d == 1 else A(r'aes_cbc_dec_{b}', r'aes{b}_dec'), []),
        'CNTR': (A(r'aes_cntr_{b}_(?!bit)', r'aes_cntr_{b}$', r'aes{b}_cntr(?!_bit|_ccm)'), []),
        'NULL': ([], []),
        'DOCSIS_SEC_BPI': (A(r'aes{b}_enc', r'aes_cbc_enc_{b}', r'aes{b}_cbc_enc', r'aes_docsis{b}_enc', r'docsis{b}_sec_crc_enc', r'docsis_aes{b}_enc', r'aes_docsis_enc_{b}') if d == 1
                           else A(r'aes_cbc_dec_{b}', r'aes_docsis{b}_dec', r'aes_docsis_dec_{b}', r'docsis_aes{b}_dec', r'docsis{b}_sec_crc_dec'),
                           A(r'aes_cfb_{b}_one', r'ethernet_fcs', r'aes_docsis\w*{b}')),
        'GCM': (A(r'aes_gcm_{d}_var_iv_{b}', r'aes_gcm_{d}_{b}'), []),
        'DES': (A(r'^des_{d}_cbc', r'des_x16_cbc_{d}', r'job_des_cbc_{d}'), []),
        'DOCSIS_DES': (A(r'docsis_des_{d}', r'docsis_des_x16_{d}', r'job_docsis_des_{d}'), []),
        'CCM': (A(r'aes_cntr_ccm_{b}', r'aes{b}_cntr_ccm'), []),
        'DES3': (A(r'des3_{d}_cbc', r'3des_x16_cbc_{d}', r'job_3des_cbc_{d}'), []),
        'PON_AES_CNTR': (A(r'pon_{d}'), []),
        'ECB': (A(r'aes_ecb_{d}_{b}', r'aes{b}_ecb_{d}'), []),
        'CNTR_BITLEN': (A(r'aes_cntr_bit_{b}', r'aes{b}_cntr_bit'), []),
        'ZUC_EEA3': ([r'zuc_eea3'] if key == 16 else [r'zuc256_eea3'], []),
        'SNOW3G_UEA2_BITLEN': ([r'snow3g_uea2', r'snow3g_f8'], [r'snow3g_f8']),
        'KASUMI_UEA1_BITLEN': ([r'kasumi_f8'], []),
        'CBCS_1_9': (A(r'aes128_cbcs_1_9_enc') if d == 1 else A(r'aes_cbcs_1_9_dec_128'), []),
        'CHACHA20': ([r'chacha20_enc_dec'], []),
        'CHACHA20_POLY1305': ([r'aead_chacha20_poly1305_(?!sgl)'], []),
        'CHACHA20_POLY1305_SGL': ([r'aead_chacha20_poly1305_sgl'], []),
        'SNOW_V': ([r'^snow_v_(?!aead)'], []),
        'SNOW_V_AEAD': ([r'snow_v_aead_init'], [r'ghash', r'gcm_precomp|ghash_pre']),
        'GCM_SGL': (A(r'aes_gcm_{d}_{b}_(update|finalize)'), A(r'aes_gcm_init_var_iv_{b}', r'aes_gcm_init_{b}', r'aes_gcm_{d}_{b}', r'aes_gcm_(enc|dec)_{b}_finalize')),   # finalisation is direction-independent
        'SM4_ECB': ([r'sm4_ecb'], []), 'SM4_CBC': (A(r'sm4_cbc_{d}'), []), 'SM4_CNTR': ([r'sm4_ctr'], []),
        'SM4_GCM': ([r'sm4_ctr', r'sm4_gcm'], [r'sm4_ecb', r'ghash', r'sm4_\w+']),
        'CFB': (A(r'aes_cfb_{b}_{d}', r'aes{b}_cfb_{d}', r'aes_cfb_{d}_{b}'), []),
    }
    return R[name]


def hash_rule(hname):
    H = {
        'HMAC_SHA_1': [r'job_hmac_(ni_)?(sse|avx|avx2|avx512)', r'job_hmac_sha_?1_'], 'HMAC_SHA_224': [r'hmac_sha_?224'], 'HMAC_SHA_256': [r'hmac_sha_?256'],
        'HMAC_SHA_384': [r'hmac_sha_?384'], 'HMAC_SHA_512': [r'hmac_sha_?512'], 'AES_XCBC': [r'aes_?(128_)?xcbc'], 'MD5': [r'hmac_md5'],
        'NULL': None, 'AES_GMAC': None, 'AES_CCM': [r'aes128_ccm_auth|aes256_ccm_auth|aes_ccm_auth'], 'AES_CMAC': [r'aes128_cmac_auth|aes_cmac_auth'],
        'SHA_1': [r'job_sha_?1_'], 'SHA_224': [r'job_sha_?224_'], 'SHA_256': [r'job_sha_?256_'], 'SHA_384': [r'job_sha_?384_'], 'SHA_512': [r'job_sha_?512_'],
        'AES_CMAC_BITLEN': [r'aes128_cmac_auth|aes_cmac_auth'], 'PON_CRC_BIP': None, 'ZUC_EIA3_BITLEN': [r'zuc_eia3'], 'DOCSIS_CRC32': None,   # the CRC is computed inside the DOCSIS cipher stage; the hash stage only marks completion
        
        'SNOW3G_UIA2_BITLEN': [r'snow3g_uia2|snow3g_f9'], 'KASUMI_UIA1': [r'kasumi_f9'], 'AES_GMAC_128': [r'gmac\w*_128|aes_gcm\w*_128|ghash'],
        'AES_GMAC_192': [r'gmac\w*_192|aes_gcm\w*_192|ghash'], 'AES_GMAC_256': [r'gmac\w*_256|aes_gcm\w*_256|ghash'], 'AES_CMAC_256': [r'aes256_cmac_auth'],
        'POLY1305': [r'poly1305'], 'CHACHA20_POLY1305': None, 'CHACHA20_POLY1305_SGL': None, 'ZUC256_EIA3_BITLEN': [r'zuc256_eia3'], 'SNOW_V_AEAD': None,
        'GCM_SGL': None, 'CRC32_ETHERNET_FCS': [r'ethernet_fcs'], 'CRC32_SCTP': [r'crc32_sctp'], 'CRC32_WIMAX_OFDMA_DATA': [r'crc32_wimax_ofdma_data'],
        'CRC24_LTE_A': [r'crc24_lte_a'], 'CRC24_LTE_B': [r'crc24_lte_b'], 'CRC16_X25': [r'crc16_x25'], 'CRC16_FP_DATA': [r'crc16_fp_data'],
        'CRC11_FP_HEADER': [r'crc11_fp_header'], 'CRC10_IUUP_DATA': [r'crc10_iuup_data'], 'CRC8_WIMAX_OFDMA_HCS': [r'crc8_wimax_ofdma_hcs'],
        'CRC7_FP_HEADER': [r'crc7_fp_header'], 'CRC6_IUUP_HEADER': [r'crc6_iuup_header'], 'GHASH': [r'ghash'], 'SM3': [r'sm3'], 'HMAC_SM3': [r'sm3'],
        'SM4_GCM': None,
    }
    return H.get(hname, 'UNKNOWN')


CBMC_CELL = ['--drop-unused-functions', '--no-pointer-check', '--no-bounds-check', '--no-div-by-zero-check', '--no-signed-overflow-check',
             '--no-pointer-primitive-check', '--no-undefined-shift-check', '--unwind', '4', '--object-bits', '12']


def build_variant(ctx, arch):
    gb = os.path.join(ctx.scratch, 'tab_%s.gb' % arch)
    init = 'init_mb_mgr_%s_internal' % arch
    gotocc(ctx, os.path.join(VERIF, 'cbmc', 'tabcell.c'), gb, defs=['-DARCH_FILE="%s"' % ARCH_FILES[arch], '-DINIT_FN=' + init], arch=arch)
    gs = os.path.join(ctx.scratch, 'tab_%s.s.gb' % arch)
    rc, o, _, _ = sh(['goto-instrument', '--generate-function-body', '(?!__CPROVER).*', '--generate-function-body-options', 'assert-false', gb, gs], timeout=300)
    if rc != 0:
        raise Inconclusive('goto-instrument --generate-function-body failed: ' + o[-400:])
    ctx.note_source('lib/' + ARCH_FILES[arch])
    return gs


def run_cell(ctx, base, arch, cell, timeout=600):
    kind, mode, key, d, h = cell
    tag = 'cell_%s_%d_%d_%d_%d_%d' % (arch, kind, mode, key, d, h)
    c = os.path.join(ctx.scratch, tag + '.c')
    open(c, 'w').write('const int cfg_kind=%d, cfg_mode=%d, cfg_key=%d, cfg_dir=%d, cfg_hash=%d;\n' % cell)
    g = os.path.join(ctx.scratch, tag + '.gb')
    rc, o, _, _ = sh(['goto-cc', base, c, '-o', g], timeout=120)
    if rc != 0:
        raise Inconclusive('link failed: ' + o[-300:])
    rc, out, secs, to = sh(['cbmc', g] + CBMC_CELL, timeout=timeout)
    os.unlink(g)
    os.unlink(c)
    if to or 'VERIFICATION' not in out:
        return None, secs, out[-300:]
    leaves = sorted(set(re.findall(r'^\[(\w+)\.assertion\.\d+\] .*undefined function should be unreachable: FAILURE', out, re.M)))
    return leaves, secs, ''


def run(ctx):
    en = None
    from vlib import native
    en = native.enum_table(ctx)
    hashes = {n[len('IMB_AUTH_'):]: v for n, v in en.items() if n.startswith('IMB_AUTH_') and n != 'IMB_AUTH_NUM'}
    cmodes = {n[len('IMB_CIPHER_'):]: v for n, v in en.items() if n.startswith('IMB_CIPHER_') and n != 'IMB_CIPHER_NUM'}
    # the oracle's own numbering must agree with the header (enum reordering is then caught by the cells themselves)
    for n, (v, _) in CIPHERS.items():
        if cmodes.get(n) != v:
            ctx.violation('enum:%s' % n, 'IMB_CIPHER_%s is %s in intel-ipsec-mb.h but the documented value is %d' % (n, cmodes.get(n), v))
    archs = list(ARCH_FILES)
    full = set(['sse_t1', 'avx512_t2']) if ctx.quick() else set(ARCH_FILES)   # quick: the other variants get the submit cells only
    if os.environ.get('VERIF_ARCHS'):
        archs = os.environ['VERIF_ARCHS'].split(',')
    ctx.bounds.update({'cells': 'every permitted (cipher_mode,key size,direction) and every hash_alg, job fields and manager contents fully symbolic',
                       'variants': archs, 'cbmc_unwind': 4,
                       'case_split': 'one query per table cell and dispatcher (submit/flush x job-API/suite-id path)'})
    ctx.assume('leaf = any function without a C body in the variant translation unit (assembly kernels/managers, libc); its generated body is '
               'assert(false) so FAILED <=> reachable; the manager function-pointer table is the one installed by the variant\'s own init')
    ctx.assume('naming oracle: a cell must reach a leaf whose name carries the algorithm, key-size and direction tokens of the cell and no leaf outside '
               'the allowed set (props/c06.py cipher_rule/hash_rule)')
    ctx.outside.append('IMB_CIPHER_CUSTOM / IMB_AUTH_CUSTOM cells (user function pointers); what the leaf kernels compute (C01-C03)')
    for f in ('lib/include/mb_mgr_job_api.h', 'lib/include/mb_mgr_job_check.h', 'lib/x86_64/cipher_suite_id.c'):
        ctx.note_source(f)
    dump = os.environ.get('VERIF_DUMP')
    bases = {}
    for r in pool_map(lambda a: (a, build_variant(ctx, a)), archs):
        if isinstance(r, Exception):
            ctx.inconclusive.append(str(r))
        else:
            bases[r[0]] = r[1]
    work = []
    for a in bases:
        for n, (mode, keys) in CIPHERS.items():
            for k in keys:
                for d in (1, 2):
                    for kind in ((0, 1, 4, 5) if a in full else (0,)):
                        work.append((a, (kind, mode, k, d, hashes['NULL']), n, None))
        for hn, hv in hashes.items():
            if hn == 'CUSTOM' or hash_rule(hn) == 'UNKNOWN' and False:
                continue
            for kind in ((2, 3, 6, 7) if a in full else (2,)):
                work.append((a, (kind, cmodes['NULL'], 16, 1, hv), None, hn))

    def one(w):
        a, cell, cn, hn = w
        leaves, secs, err = run_cell(ctx, bases[a], a, cell)
        return w, leaves, secs, err

    res = {}
    tot = 0.0
    for r in pool_map(one, work):
        if isinstance(r, Exception):
            ctx.inconclusive.append(str(r))
            continue
        w, leaves, secs, err = r
        tot += secs
        res[(w[0], w[1])] = (leaves, w[2], w[3], err)
    ctx.solver_s += tot
    nq = nbad = 0
    dumpd = {}
    for (a, cell), (leaves, cn, hn, err) in sorted(res.items()):
        kind, mode, key, d, h = cell
        what = ('%s key=%d %s' % (cn, key, 'ENC' if d == 1 else 'DEC')) if cn else ('hash ' + hn)
        kname = ['SUBMIT_JOB_CIPHER', 'FLUSH_JOB_CIPHER', 'SUBMIT_JOB_HASH', 'FLUSH_JOB_HASH', 'CALL_SUBMIT_CIPHER', 'CALL_FLUSH_CIPHER',
                 'CALL_SUBMIT_HASH', 'CALL_FLUSH_HASH'][kind]
        name = 'cell %s %s [%s]' % (kname, what, a)
        if leaves is None:
            ctx.add(name, 'inconclusive', 0, 'cbmc', err)
            continue
        nq += 1
        dumpd['%s|%s|%s' % (a, kname, what)] = leaves
        bad = None
        if kind >= 4:
            # burst dispatch on suite_id must reach exactly what the job API reaches for the same session fields (C06/C09)
            ref = res.get((a, (kind - 4, mode, key, d, h)))
            if ref and ref[0] is not None and ref[0] != leaves:
                bad = 'suite-id dispatch reaches %s but the job API reaches %s' % (leaves, ref[0])
        else:
            real = [l for l in leaves if not re.match(HELPERS, l)]
            if cn:
                core, allowed = cipher_rule(cn, key, d)
                if kind == 1:
                    # flush: either nothing (synchronous kernel) or the flush entry of the same manager
                    core_f = [c.replace('submit', 'flush') for c in core]
                    if any(not (any(re.search(c, l) for c in core_f + allowed) and ('flush' in l or any(re.search(x, l) for x in allowed))) for l in real):
                        bad = 'flush reaches %s, outside the manager named by the cell' % real
                else:
                    if core and not any(re.search(c, l) for c in core for l in real):
                        bad = 'no reached leaf carries the tokens %s; reached %s' % (core, real)
                    stray = [l for l in real if not any(re.search(c, l) for c in core + allowed)]
                    if stray:
                        bad = 'reaches %s which does not belong to %s' % (stray, what)
                    if any('flush' in l for l in real):
                        bad = 'submit path reaches a flush routine: %s' % real
            else:
                rule = hash_rule(hn)
                if rule == 'UNKNOWN':
                    bad = 'hash algorithm %s has no oracle entry (new enum value?)' % hn
                elif rule is None:
                    if kind == 2 and real and hn in ('NULL',):
                        bad = 'NULL hash reaches %s' % real
                else:
                    if kind == 2 and not any(re.search(c, l) for c in rule for l in real):
                        bad = 'no reached leaf carries the tokens %s; reached %s' % (rule, real)
                    stray = [l for l in real if not any(re.search(c, l) for c in rule)]
                    if stray:
                        bad = 'reaches %s which does not belong to %s' % (stray, what)
                    if kind == 2 and any(l.startswith('flush') for l in real):
                        bad = 'submit path reaches a flush routine: %s' % real
        ctx.add(name, 'violated' if bad else 'discharged', 0, 'cbmc', bad or ('leaves: ' + ','.join(leaves)))
        if bad:
            nbad += 1
            ctx.violation('%s:%s:%s' % (a, kname, what.replace(' ', '_')), '%s: %s (replay: link cbmc/tabcell.c with cfg_kind=%d cfg_mode=%d cfg_key=%d cfg_dir=%d cfg_hash=%d for %s and run cbmc; '
                          'FAILED generated assertions are the reachable leaves)' % (name, bad, kind, mode, key, d, h, ARCH_FILES[a]))
    if dump:
        json.dump(dumpd, open(dump, 'w'), indent=0)
    ctx.extra['cells_decided'] = nq
    ctx.samples += ['%s -> %s' % (k, v) for k, v in list(dumpd.items())[:8]]
    # vacuity: a deliberately wrong oracle entry must be reported
    a0 = list(bases)[0] if bases else None
    if a0:
        lv = res.get((a0, (0, 1, 16, 1, hashes['NULL'])), (None,))[0]
        core, _ = cipher_rule('CBC', 32, 1)
        ok = lv is not None and not any(re.search(c, l) for c in core for l in lv)
        ctx.add('WITNESS AES-CBC-128 cell does not satisfy the AES-CBC-256 rule', 'violated' if ok else 'discharged', 0, 'cbmc', str(lv), expect='violated')
    # stage sequencing + pairing + session ids
    l1.run_k1(ctx)
    run_pairing(ctx)


def run_pairing(ctx):
    """AEAD pairings accepted only with each other (validator level) and suite ids equal for equal session fields."""
    hl = os.path.join(VERIF, 'cbmc', 'jobcheck_light.c')
    gbl = os.path.join(ctx.scratch, 'jl6.gb')
    gotocc(ctx, hl, gbl)
    res, fails, log = cbmc(ctx, gbl, 'is_job_invalid_light vs key-size/pairing table (imb_set_session gate)', unwind=4, timeout=300)
    if res == 'violated':
        from tools.trace_summary import summarise
        vals = summarise(log)
        for fid, desc in fails:
            v = vals.get(fid, {})
            ctx.violation('light:%s:c=%s:h=%s' % (fid.split('.')[-1], v.get('c'), v.get('h')), '%s | c=%s h=%s d=%s k=%s r=%s' % (desc, v.get('c'), v.get('h'), v.get('d'), v.get('k'), v.get('r')), [log, hl])
    hs = os.path.join(VERIF, 'cbmc', 'session.c')
    gbs = os.path.join(ctx.scratch, 'sess.gb')
    gotocc(ctx, hs, gbs)
    res, fails, log = cbmc(ctx, gbs, 'imb_set_session/set_cipher_suite_id: equal session fields => equal suite ids; ids select the named table cells', unwind=4, timeout=600)
    if res == 'violated':
        for fid, desc in fails:
            ctx.violation('session:' + fid.split('.')[-1], desc + ' (CBMC trace over the real cipher_suite_id.c is the replay)', [log, hs])
    gbw = os.path.join(ctx.scratch, 'sessw.gb')
    gotocc(ctx, hs, gbw, defs=['-DWITNESS'])
    cbmc(ctx, gbw, 'WITNESS session harness', unwind=4, timeout=600, expect='violated', trace=False)


if __name__ == '__main__':
    main_wrapper(PROP, run)
