"""C14 — job descriptors come back unaltered; status and error code are exact; error-string lookup is total."""
import os
from vlib.core import *
from props import ring, l1

PROP = 'C14'


def run(ctx):
    ctx.note_source('lib/x86_64/error.c')
    ctx.note_source('lib/include/error.h')
    ctx.note_source('lib/x86_64/cipher_suite_id.c')
    simple_cbmc(ctx, 'errors.c', 'error.c: imb_get_strerror total over all 2^32 ints, every library code has its own message, set/get errno laws', 60)
    simple_cbmc(ctx, 'session.c', 'imb_set_session: caller-owned session fields unaltered, ids consistent, failure leaves job untouched', 4)
    ctx.assume('strerror() is a stub returning a non-NULL sentinel; atomic_uint64_inc and the CRC used for session_id are stubs (their values are not part of C14)')
    # thorough: a second architecture instantiation (the burst entries 6..9 with a descriptor snapshot ran for more than two hours; their
    # descriptor handling is covered by C05/C12's step laws without the snapshot)
    ents = [1, 2, 3, 4, 5]
    ring.run_entries(ctx, ents, ['sse_t1'] if ctx.quick() else ['sse_t1', 'avx512_t1'], timeout=1500 if ctx.quick() else 3600, desc=True)
    l1.run_k1(ctx)
    from props import asm_hmac, jobwrite
    jobwrite.run(ctx)                   # every .asm routine with an IMB_JOB* parameter: descriptor bytes other than status unchanged on every path
    if not ctx.quick():
        # the CMAC/XCBC, SM3, x16 CBC and CCM scenario families take ~5 min together: thorough tier only for C14 (the quick command has to
        # stay well below 15 min on a slower machine); their status / write-set obligations are by-products of runs C02/C03/C04 make anyway
        from props import asm_cmac, asm_sm3, asm_cbcsc, asm_ccm
        asm_cmac.run_family(ctx, PROP)
        asm_sm3.run_family(ctx, PROP)
        asm_cbcsc.run_family(ctx, PROP)
        asm_ccm.run_family(ctx, PROP)
    else:
        ctx.outside.append('status / descriptor write set of the HMAC, CMAC, XCBC, SM3, x16 CBC-encrypt and CCM managers in this tier (thorough tier; the machine-code sweep of every routine with a job parameter runs in both)')
    if not ctx.quick():
        asm_hmac.run_family(ctx, PROP)      # descriptor write set / status of the HMAC managers (machine code)
    ctx.samples.append('for ALL int e: imb_get_strerror(e) != NULL; IMB_ERR_MIN<e<IMB_ERR_MAX => a library message, listed once in imb_errno_types[]')
    ctx.samples.append('any ring state, any stale errno: SUBMIT_JOB leaves errno 0 on success / the validator code on rejection; every caller-owned field of every ring job unchanged')
    ctx.outside.append('descriptor writes performed inside assembly managers other than the AES-CBC-encrypt (C04) and SSE HMAC ones')


if __name__ == '__main__':
    main_wrapper(PROP, run)
