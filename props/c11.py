"""C11 — key-preparation helpers produce exactly the standard key material."""
import os
from vlib.core import *
from vlib.core import run as sh
from props import asm_keys
from vlib import native

PROP = 'C11'
ALGS = ['HMAC_SHA_1', 'HMAC_SHA_224', 'HMAC_SHA_256', 'HMAC_SHA_384', 'HMAC_SHA_512', 'MD5', 'HMAC_SM3', 'AES_XCBC']


def run(ctx):
    asm_keys.run_family(ctx, PROP)
    en = native.enum_table(ctx)
    ctx.note_source('lib/x86_64/hmac_ipad_opad.c')
    h = os.path.join(VERIF, 'cbmc', 'hmac_ipad.c')
    base = os.path.join(ctx.scratch, 'hmac.gb')
    gotocc(ctx, h, base)
    basew = os.path.join(ctx.scratch, 'hmac_w.gb')
    gotocc(ctx, h, basew, defs=['-DWITNESS'])
    work = [(a, False) for a in ALGS] + [('HMAC_SHA_1', True)]

    def one(w):
        a, wit = w
        c = os.path.join(ctx.scratch, 'alg_%s_%d.c' % (a, wit))
        open(c, 'w').write('const int cfg_alg=%d;\n' % en['IMB_AUTH_' + a])
        q = os.path.join(ctx.scratch, 'hmac_%s_%d.gb' % (a, wit))
        rc, o, _, _ = sh(['goto-cc', basew if wit else base, c, '-o', q], timeout=120)
        if rc != 0:
            raise Inconclusive('link failed')
        nm = '%simb_hmac_ipad_opad(%s): every key length 0..2 blocks+1, hash-first rule / MD5 refusal, ipad/opad block content, error code on the manager, scratch wiped' % ('WITNESS ' if wit else '', a)
        res, fails, log = cbmc(ctx, q, nm, unwind=262, timeout=2400, expect='violated' if wit else 'discharged', trace=not wit,
                               flags=['--unwinding-assertions', '--drop-unused-functions', '--no-malloc-may-fail', '--object-bits', '12'])
        return w, res, fails, log

    for r in pool_map(one, work):
        if isinstance(r, Exception):
            ctx.inconclusive.append(str(r))
            continue
        (a, wit), res, fails, log = r
        if wit or res != 'violated':
            continue
        for fid, desc in fails[:3]:
            ctx.violation('hmac_ipad_opad:%s:%s' % (a, fid.split('.')[-1]), 'imb_hmac_ipad_opad(%s): %s (the CBMC trace over the real hmac_ipad_opad.c is the replay; error-code findings: replay_src/errno_replay.c)' % (a, desc), [log, h])
    ctx.bounds['hmac_ipad_opad'] = 'one query per algorithm; key length symbolic in [0, 2*block+1]; key bytes symbolic; ipad/opad pointers NULL or valid'
    ctx.assume('hash primitives in the HMAC harness are recording stubs (their values are C02); safe_memcpy is a byte copy; imb_clear_mem a counter')
    ctx.outside += ['GCM/GHASH key pre-computation, DES key schedule vs FIPS 46-3, SM4 key expansion, KASUMI/SNOW3G key schedules, 3GPP IV generators, XCBC key expansion (not built in this session)']
    ctx.samples.append('aes_keyexp_256_avx512: for ALL 256-bit keys the 15 round keys equal the FIPS-197 schedule and dec[i] == InvMixColumns(enc[14-i])')


if __name__ == '__main__':
    main_wrapper(PROP, run)
