"""C10 — streaming/SGL results do not depend on how the message is segmented."""
import os, itertools
from vlib.core import *
from vlib.core import run as sh

PROP = 'C10'


def run(ctx):
    quick = ctx.quick()
    lens = [0, 3, 16, 21] if quick else [0, 1, 7, 15, 16, 17, 24]
    aads = [0, 13] if quick else [0, 5, 16, 20]
    run_chapoly(ctx, lens, aads)


def run_chapoly(ctx, lens, aads, label='C10'):
    nseg = 3
    wseg = tuple(lens[k % len(lens)] for k in (1, 2, 3))
    ctx.note_source('lib/x86_64/chacha20_poly1305.c')
    ctx.bounds.update({'unit': 'init/update_enc/update_dec/finalize_chacha20_poly1305_sse (direct streaming API) of chacha20_poly1305.c',
                       'segments': '%d segments, each length in %s (every combination), AAD length in %s, both directions; message/AAD/key bytes and the stale context symbolic' % (nseg, lens, aads),
                       'cbmc_unwind': 100})
    ctx.assume('ghost kernels: poly1305_aead_update appends its input zero-padded to 16 to a stream; chacha20_enc_dec_ks XORs with an uninterpreted keystream of the absolute position; '
               'poly1305 key generation/finalisation are tagged stubs (what the kernels compute is C01-C03)')
    ctx.assume('segment lengths are case-split (structure-determining); within a query all data is symbolic and the obligations are checked at an arbitrary byte index')
    ctx.outside += ['GCM-SGL / GMAC streaming (assembly, asmx K-mode not built in this session)', 'the SGL job path aead_chacha20_poly1305_sgl (IMB_SGL_INIT/UPDATE/COMPLETE) which shares '
                    'update_chacha20_poly1305_direct with the direct API checked here', 'more than %d segments, segment lengths outside the listed set' % nseg]
    h = os.path.join(VERIF, 'cbmc', 'chapoly_sgl.c')
    base = os.path.join(ctx.scratch, 'cp.gb')
    gotocc(ctx, h, base, defs=['-DNSEG=%d' % nseg, '-DMAXSEG=%d' % max(lens)])
    basew = os.path.join(ctx.scratch, 'cpw.gb')
    gotocc(ctx, h, basew, defs=['-DNSEG=%d' % nseg, '-DMAXSEG=%d' % max(lens), '-DWITNESS'])
    basej = os.path.join(ctx.scratch, 'cpj.gb')
    gotocc(ctx, h, basej, defs=['-DNSEG=%d' % nseg, '-DMAXSEG=%d' % max(lens), '-DJOBPATH'])
    basejw = os.path.join(ctx.scratch, 'cpjw.gb')
    gotocc(ctx, h, basejw, defs=['-DNSEG=%d' % nseg, '-DMAXSEG=%d' % max(lens), '-DJOBPATH', '-DWITNESS'])
    work = [(segs, a, e, False) for segs in itertools.product(lens, repeat=nseg) for a in aads for e in (0, 1)]
    work.append((wseg, aads[-1], 1, True))
    # the one-shot job entry point on the same work items (total length = sum of the segments): both must equal the same specification
    totals = {}
    for segs in itertools.product(lens, repeat=nseg):
        totals.setdefault(sum(segs), segs)
    work += [(segs, a, e, 'job') for segs in totals.values() for a in aads for e in (0, 1)]
    work.append((wseg, aads[-1], 0, 'jobwit'))
    flags = ['--unwinding-assertions', '--drop-unused-functions', '--no-malloc-may-fail', '--object-bits', '12']

    def one(w):
        segs, a, e, wit = w
        tag = 'cp_%s_%d_%d_%s' % ('_'.join(map(str, segs)), a, e, wit)
        c = os.path.join(ctx.scratch, tag + '.c')
        open(c, 'w').write('const int cfg_seg[4]={%s,0}, cfg_aad=%d, cfg_enc=%d;\n' % (','.join(map(str, segs)), a, e))
        q = os.path.join(ctx.scratch, tag + '.gb')
        gb = {False: base, True: basew, 'job': basej, 'jobwit': basejw}[wit]
        rc, o, _, _ = sh(['goto-cc', gb, c, '-o', q], timeout=120)
        if rc != 0:
            raise Inconclusive('link failed')
        if wit in ('job', 'jobwit'):
            nm = '%s%s ChaCha20-Poly1305 single job (aead_chacha20_poly1305_sse), length %d, AAD %d, %s: Poly1305 stream == pad16(AAD)||pad16(CT)||lengths, output == input ^ keystream(position) (same specification as the streaming calls)' % (
                'WITNESS ' if wit == 'jobwit' else '', label, sum(segs), a, 'encrypt' if e else 'decrypt')
        else:
            nm = '%s%s ChaCha20-Poly1305 init/update x%d/finalize, segments %s, AAD %d, %s: Poly1305 stream == pad16(AAD)||pad16(CT)||lengths, output == input ^ keystream(position)' % (
                'WITNESS ' if wit else '', label, nseg, list(segs), a, 'encrypt' if e else 'decrypt')
        isw = wit in (True, 'jobwit')
        res, fails, log = cbmc(ctx, q, nm, unwind=100, timeout=600, expect='violated' if isw else 'discharged', trace=not isw, flags=flags)
        os.unlink(q)
        return w, res, fails, log

    seen = set()
    for r in pool_map(one, work):
        if isinstance(r, Exception):
            ctx.inconclusive.append(str(r))
            continue
        (segs, a, e, wit), res, fails, log = r
        if wit in (True, 'jobwit') or res != 'violated':
            continue
        for fid, desc in fails[:2]:
            key = 'chapoly%s:%s:segs=%s:aad=%d:%s' % ('-job' if wit == 'job' else '', fid.split('.')[-1], '-'.join(map(str, segs)), a, 'enc' if e else 'dec')
            ctx.violation(key, '%s %s, AAD %d, %s: %s' % ('single job of total length' if wit == 'job' else 'segmentation', sum(segs) if wit == 'job' else list(segs), a, 'encrypt' if e else 'decrypt', desc) + ' (the CBMC trace over the real chacha20_poly1305.c is the replay)', [log, h])
            continue
            ctx.violation(key, 'segmentation %s, AAD %d, %s: %s (the CBMC trace over the real chacha20_poly1305.c is the replay)' % (list(segs), a, 'encrypt' if e else 'decrypt', desc), [log, h])
    ctx.samples.append('segments [3,16,21], AAD 13, encrypt: Poly1305 sees pad16(AAD)||pad16(CT)||le64(13)||le64(40); out[i] = in[i]^ks(i) for every i')


if __name__ == '__main__':
    main_wrapper(PROP, run)
