/* C06/C12: is_job_invalid_light() (template check used by imb_set_session) vs. an independent table:
 * supported key sizes per cipher mode, direction, AEAD pairings in both directions. */
#include <stdlib.h>
#include <stdint.h>
#include "intel-ipsec-mb.h"
#include "include/error.h"
#include "include/mb_mgr_job_check.h"
volatile int imb_errno;
unsigned nondet_uint(void);
uint64_t nondet_u64(void);

/* bit i set <=> key size 8*(i+1) allowed; 0xff = any (no key-size rule) */
static int
keys_ok(unsigned c, uint64_t k)
{
        const int k8 = k == 8, k16 = k == 16, k24 = k == 24, k32 = k == 32;
        switch (c) {
        case IMB_CIPHER_NULL: case IMB_CIPHER_CUSTOM: case IMB_CIPHER_PON_AES_CNTR: return 1;
        case IMB_CIPHER_CBC: case IMB_CIPHER_CBCS_1_9: case IMB_CIPHER_ECB: case IMB_CIPHER_CNTR:
        case IMB_CIPHER_CNTR_BITLEN: case IMB_CIPHER_GCM: case IMB_CIPHER_GCM_SGL: case IMB_CIPHER_CFB:
                return k16 || k24 || k32;
        case IMB_CIPHER_DOCSIS_SEC_BPI: case IMB_CIPHER_CCM: case IMB_CIPHER_ZUC_EEA3: return k16 || k32;
        case IMB_CIPHER_DES: case IMB_CIPHER_DOCSIS_DES: return k8;
        case IMB_CIPHER_DES3: return k24;
        case IMB_CIPHER_SM4_GCM: case IMB_CIPHER_SNOW3G_UEA2_BITLEN: case IMB_CIPHER_KASUMI_UEA1_BITLEN:
        case IMB_CIPHER_SM4_CBC: case IMB_CIPHER_SM4_ECB: case IMB_CIPHER_SM4_CNTR: return k16;
        case IMB_CIPHER_CHACHA20: case IMB_CIPHER_CHACHA20_POLY1305: case IMB_CIPHER_CHACHA20_POLY1305_SGL:
        case IMB_CIPHER_SNOW_V: case IMB_CIPHER_SNOW_V_AEAD: return k32;
        default: return -1; /* unknown mode */
        }
}
/* dedicated partner: cipher -> required hash (0 = none), hash -> required cipher (0 = none) */
static unsigned
hash_for(unsigned c)
{
        switch (c) {
        case IMB_CIPHER_GCM: return IMB_AUTH_AES_GMAC;
        case IMB_CIPHER_GCM_SGL: return IMB_AUTH_GCM_SGL;
        case IMB_CIPHER_SM4_GCM: return IMB_AUTH_SM4_GCM;
        case IMB_CIPHER_CCM: return IMB_AUTH_AES_CCM;
        case IMB_CIPHER_PON_AES_CNTR: return IMB_AUTH_PON_CRC_BIP;
        case IMB_CIPHER_CHACHA20_POLY1305: return IMB_AUTH_CHACHA20_POLY1305;
        case IMB_CIPHER_CHACHA20_POLY1305_SGL: return IMB_AUTH_CHACHA20_POLY1305_SGL;
        case IMB_CIPHER_SNOW_V_AEAD: return IMB_AUTH_SNOW_V_AEAD;
        default: return 0;
        }
}
static unsigned
cipher_for(unsigned h)
{
        switch (h) {
        case IMB_AUTH_AES_GMAC: return IMB_CIPHER_GCM;
        case IMB_AUTH_GCM_SGL: return IMB_CIPHER_GCM_SGL;
        case IMB_AUTH_SM4_GCM: return IMB_CIPHER_SM4_GCM;
        case IMB_AUTH_AES_CCM: return IMB_CIPHER_CCM;
        case IMB_AUTH_PON_CRC_BIP: return IMB_CIPHER_PON_AES_CNTR;
        case IMB_AUTH_DOCSIS_CRC32: return IMB_CIPHER_DOCSIS_SEC_BPI;
        case IMB_AUTH_CHACHA20_POLY1305: return IMB_CIPHER_CHACHA20_POLY1305;
        case IMB_AUTH_CHACHA20_POLY1305_SGL: return IMB_CIPHER_CHACHA20_POLY1305_SGL;
        case IMB_AUTH_SNOW_V_AEAD: return IMB_CIPHER_SNOW_V_AEAD;
        default: return 0;
        }
}
int
main(void)
{
        IMB_MGR *st = malloc(sizeof(IMB_MGR));
        __CPROVER_assume(st != 0);
        st->imb_errno = 0;
        const unsigned c = nondet_uint(), h = nondet_uint(), d = nondet_uint();
        const uint64_t k = nondet_u64();
        const int r = is_job_invalid_light(st, (IMB_CIPHER_MODE) c, (IMB_HASH_ALG) h, (IMB_CIPHER_DIRECTION) d, k);
        const int dir_bad = d != IMB_DIR_ENCRYPT && d != IMB_DIR_DECRYPT && c != IMB_CIPHER_NULL;
        const int mode_bad = keys_ok(c, k) < 0, key_bad = keys_ok(c, k) == 0;
        const int hash_unknown = h < 1 || h >= IMB_AUTH_NUM;
        const int pair_bad_c = hash_for(c) != 0 && hash_for(c) != h;
        const int pair_bad_h = cipher_for(h) != 0 && cipher_for(h) != c;
        const int bad = dir_bad || mode_bad || key_bad || hash_unknown || pair_bad_c || pair_bad_h;
        __CPROVER_assert((r != 0) == bad, "C06 light validator: rejected <=> table says unsupported");
        if (r) {
                const int e = st->imb_errno;
                __CPROVER_assert((e == IMB_ERR_JOB_CIPH_DIR && dir_bad) || (e == IMB_ERR_CIPH_MODE && (mode_bad || pair_bad_h)) ||
                                         (e == IMB_ERR_JOB_KEY_LEN && key_bad) ||
                                         (e == IMB_ERR_HASH_ALGO && (hash_unknown || pair_bad_c)),
                                 "C06 light validator: errno names a violated rule");
        } else
                __CPROVER_assert(st->imb_errno == 0, "accepted template leaves errno untouched");
#ifdef WITNESS
        __CPROVER_assert(r == 0, "WITNESS must fail");
        __CPROVER_assert(r != 0, "WITNESS must fail");
#endif
        return 0;
}
