/* L0: one inductive step of every in-order-ring entry point of the real job/burst API code
 * (lib/include/mb_mgr_job_api.h, mb_mgr_burst_async.h, mb_mgr_code.h as compiled into lib/<arch>/mb_mgr_<arch>.c)
 * from an ARBITRARY ring state satisfying the ring invariant R, against contract stubs K1 for
 * submit_new_job / complete_job / submit_new_burst_job / complete_burst_job / is_job_invalid
 * (installed with goto-instrument --replace-calls).  Ring size is 2*IMB_MAX_BURST_SIZE of the patched header copy.
 *
 * -DENTRY=<n> selects the entry point.  -DWITNESS adds a must-fail assertion at the end.
 */
#include ARCH_FILE
#include <assert.h>
#undef assert /* the repo is built with -DNDEBUG: use CBMC assertions, which NDEBUG does not remove */
#define assert(c) __CPROVER_assert((c), #c)

volatile int imb_errno;
int nondet_int(void);
unsigned nondet_uint(void);
_Bool nondet_bool(void);

#define N ((int) IMB_MAX_JOBS)
#define SZ ((int) sizeof(IMB_JOB))

static IMB_MGR st;
#ifdef OTHER_MGR
static IMB_MGR other; /* C17: a second, unrelated manager */
static unsigned char other_before;
static unsigned long other_k;
unsigned long nondet_ulong(void);
#endif
extern const int cfg_n0, cfg_e0, cfg_nj, cfg_k0; /* -1 (cfg_e0: -2) = symbolic */

/* ---- ghost state ---- */
static unsigned g_submit_calls, g_complete_calls, g_invalid_verdicts;
static int g_last_submitted = -1;
static int g_order_ok = 1;
static int g_expected_next_submit = -1;

static int
slot_of(const IMB_JOB *j)
{
        return (int) (j - st.jobs);
}
static int
in_window_idx(int e_off, int n_off, int k)
{
        if (e_off < 0)
                return 0;
        const int e = e_off / SZ, n = n_off / SZ;
        if (e < n)
                return k >= e && k < n;
        return k >= e || k < n; /* wrapped (e == n means full, never in R) */
}
static int
in_window(int k)
{
        return in_window_idx(st.earliest_job, st.next_job, k);
}

/* ---- contract stubs (K1) ---- */
/* window as seen by the stage code while a submit is in progress: the ring window plus the jobs being submitted */
static int g_sub_lo = 0, g_sub_n = 0; /* slots [g_sub_lo, g_sub_lo+g_sub_n) mod N are being submitted in this call */
static int
in_flight_scope(int k)
{
        return in_window(k) || ((k - g_sub_lo + N) % N) < g_sub_n;
}
static void
maybe_complete_others(void)
{
        /* one nondeterministic choice per ring slot (loop bound = ring size) */
        for (int k = 0; k < N; k++) {
                const _Bool c = nondet_bool();
                if (c && in_flight_scope(k) && st.jobs[k].status < IMB_STATUS_COMPLETED)
                        st.jobs[k].status = IMB_STATUS_COMPLETED;
        }
}
IMB_JOB *
stub_submit_new_job(IMB_MGR *s, IMB_JOB *job)
{
        assert(s == &st);
        assert(job->status == IMB_STATUS_BEING_PROCESSED); /* status initialised before the stages run */
        g_submit_calls++;
        if (g_expected_next_submit >= 0) {
                if (slot_of(job) != g_expected_next_submit)
                        g_order_ok = 0;
                g_expected_next_submit = (g_expected_next_submit + 1) % N;
        }
        g_last_submitted = slot_of(job);
        /* K1 (proved by L1): during one submit at most ONE job becomes COMPLETED and it is the one returned: a stage call
         * hands back at most one job and the resubmit chain follows exactly that job */
        if (nondet_bool())
                return NULL;
        unsigned k = nondet_uint();
        __CPROVER_assume(k < (unsigned) N);
        __CPROVER_assume(in_flight_scope((int) k) || &st.jobs[k] == job);
        __CPROVER_assume(st.jobs[k].status < IMB_STATUS_COMPLETED);
        st.jobs[k].status = IMB_STATUS_COMPLETED;
        return &st.jobs[k];
}
uint32_t
stub_complete_job(IMB_MGR *s, IMB_JOB *job)
{
        assert(s == &st);
        assert(in_window(slot_of(job))); /* only in-flight jobs are flushed */
        g_complete_calls++;
        maybe_complete_others();
        if (job->status < IMB_STATUS_COMPLETED)
                job->status = IMB_STATUS_COMPLETED;
        return 1;
}
static int g_invalid_errno;
int
stub_is_job_invalid(IMB_MGR *s, const IMB_JOB *job, const IMB_CIPHER_MODE c, const IMB_HASH_ALG h,
                    const IMB_CIPHER_DIRECTION d, const uint64_t k)
{
        (void) job; (void) c; (void) h; (void) d; (void) k;
        if (nondet_bool())
                return 0;
        g_invalid_verdicts++;
        g_invalid_errno = nondet_int();
        __CPROVER_assume(g_invalid_errno > IMB_ERR_MIN && g_invalid_errno < IMB_ERR_MAX);
        imb_set_errno(s, g_invalid_errno);
        return 1;
}

/* JOBS(): same function as the real one whenever the offset is a slot multiple inside the ring (asserted), but phrased as
 * array indexing so that CBMC does not have to reason about byte offsets into the whole manager object */
IMB_JOB *
stub_JOBS(IMB_MGR *state, const int offset)
{
        assert(offset >= 0 && offset % SZ == 0 && offset < N * SZ);
        return &state->jobs[offset / SZ];
}

/* ---- invariant R ---- */
static int
R(void)
{
        const int e = st.earliest_job, n = st.next_job;
        if (!(n >= 0 && n % SZ == 0 && n < N * SZ))
                return 0;
        if (e == -1)
                return 1;
        if (!(e >= 0 && e % SZ == 0 && e < N * SZ))
                return 0;
        return e != n; /* the queue is never left full between calls */
}
static unsigned
qsize(void)
{
        if (st.earliest_job < 0)
                return 0;
        int d = (st.next_job - st.earliest_job) / SZ;
        if (d < 0)
                d += N;
        return (unsigned) d;
}

static IMB_STATUS pre_status[2 * IMB_MAX_BURST_SIZE];
/* C14: caller-owned descriptor fields must be identical when the call returns.  One ARBITRARY slot k0 is snapshotted
 * (universally quantified through the nondeterministic index), which is as general as snapshotting all of them. */
static IMB_JOB pre_job;
static unsigned k0;
static void
snap(void)
{
#ifdef CHECK_DESC
        k0 = cfg_k0 >= 0 ? (unsigned) cfg_k0 : nondet_uint(); /* the runner issues one query per slot */
        __CPROVER_assume(k0 < (unsigned) N);
        pre_job = st.jobs[k0];
#endif
}
#define SAMEF(f) assert(pre_job.f == st.jobs[k0].f)
static void
check_desc(void)
{
#ifdef CHECK_DESC
        SAMEF(enc_keys); SAMEF(dec_keys); SAMEF(key_len_in_bytes); SAMEF(src); SAMEF(dst);
        SAMEF(cipher_start_src_offset_in_bytes); SAMEF(msg_len_to_cipher_in_bytes);
        SAMEF(hash_start_src_offset_in_bytes); SAMEF(msg_len_to_hash_in_bytes); SAMEF(iv); SAMEF(iv_len_in_bytes);
        SAMEF(auth_tag_output); SAMEF(auth_tag_output_len_in_bytes); SAMEF(u.XCBC._k1_expanded); SAMEF(u.XCBC._k2);
        SAMEF(u.XCBC._k3); SAMEF(cipher_mode); SAMEF(cipher_direction); SAMEF(hash_alg); SAMEF(chain_order);
        SAMEF(user_data); SAMEF(user_data2); SAMEF(cipher_func); SAMEF(hash_func); SAMEF(sgl_state);
        SAMEF(cipher_fields.CBCS.next_iv); SAMEF(suite_id[0]); SAMEF(suite_id[1]); SAMEF(session_id);
        /* a status is only ever moved to a final value by the ring code itself */
        assert(st.jobs[k0].status == pre_job.status || st.jobs[k0].status == IMB_STATUS_COMPLETED ||
               st.jobs[k0].status == IMB_STATUS_INVALID_ARGS || st.jobs[k0].status == IMB_STATUS_BEING_PROCESSED);
#endif
}

int
main(void)
{
        __CPROVER_havoc_object(&st);
        __CPROVER_assume(R());
        /* optional case split on structure-determining small parameters (ring position, burst size); the values come from a
         * two-line configuration unit linked in per query; -1 = leave symbolic. Everything else stays symbolic. */
        if (cfg_n0 >= 0)
                __CPROVER_assume(st.next_job == cfg_n0 * SZ);
        if (cfg_e0 >= -1)
                __CPROVER_assume(st.earliest_job == (cfg_e0 < 0 ? -1 : cfg_e0 * SZ));
        for (int k = 0; k < N; k++) {
                __CPROVER_assume((unsigned) st.jobs[k].status <= IMB_STATUS_ERROR);
                /* enum-typed session fields hold enumerators (what a job that passed validation looks like) */
                __CPROVER_assume(st.jobs[k].cipher_mode >= IMB_CIPHER_CBC && st.jobs[k].cipher_mode < IMB_CIPHER_NUM);
                __CPROVER_assume(st.jobs[k].cipher_direction == IMB_DIR_ENCRYPT || st.jobs[k].cipher_direction == IMB_DIR_DECRYPT);
                __CPROVER_assume(st.jobs[k].hash_alg >= IMB_AUTH_HMAC_SHA_1 && st.jobs[k].hash_alg < IMB_AUTH_NUM);
                /* jobs outside the window are caller-owned scratch; jobs inside carry a legal status */
                pre_status[k] = st.jobs[k].status;
        }
        const int e0 = st.earliest_job, n0 = st.next_job;
#ifdef OTHER_MGR
        __CPROVER_havoc_object(&other);
        other_k = nondet_ulong();
        __CPROVER_assume(other_k < sizeof(other));
        other_before = ((unsigned char *) &other)[other_k];
        const int errno_global_before = imb_errno;
        (void) errno_global_before;
#endif
        const unsigned q0 = qsize();
        const int prior_errno = st.imb_errno; /* arbitrary stale error code */
        (void) prior_errno;

#if ENTRY == 1 || ENTRY == 2 /* SUBMIT_JOB / SUBMIT_JOB_NOCHECK */
        g_sub_lo = n0 / SZ; g_sub_n = 1;
#if ENTRY == 1
        snap();
        IMB_JOB *r = SUBMIT_JOB(&st);
#else
        snap();
        IMB_JOB *r = SUBMIT_JOB_NOCHECK(&st);
#endif
        const unsigned q1 = qsize();
        assert(R());
        assert(st.next_job == (n0 + SZ) % (N * SZ));
        IMB_JOB *sub = &st.jobs[n0 / SZ];
#if ENTRY == 1
        assert(g_invalid_verdicts <= 1);
        if (g_invalid_verdicts) {
                assert(g_submit_calls == 0); /* C12: an invalid job is never processed */
                assert(sub->status == IMB_STATUS_INVALID_ARGS);
                assert(st.imb_errno == g_invalid_errno); /* C12/C14: error code names the failure */
        } else {
                assert(g_submit_calls == 1 && g_last_submitted == n0 / SZ);
                assert(st.imb_errno == 0); /* C14: success leaves error code 0 whatever it was before */
        }
#else
        assert(g_submit_calls == 1 && g_last_submitted == n0 / SZ);
        assert(st.imb_errno == 0);
#endif
        if (r != NULL) {
                assert(r->status >= IMB_STATUS_COMPLETED);              /* only fully processed jobs come back */
                assert(r == (q0 == 0 ? sub : &st.jobs[e0 / SZ]));       /* in submission order */
                assert(q1 == q0);                                       /* one in, one out */
        } else {
                assert(q1 == q0 + 1);
                assert(q0 + 1 < (unsigned) N);                          /* a full queue forces completion of the oldest */
                assert(st.jobs[(q0 == 0 ? n0 : e0) / SZ].status < IMB_STATUS_COMPLETED); /* NULL only if oldest not done */
        }
        if (q0 + 1 == (unsigned) N)
                assert(r == &st.jobs[e0 / SZ]);
        /* window bookkeeping: new window = old window + submitted - returned */
        if (q1 > 0)
                assert(st.earliest_job == (r != NULL ? (e0 + SZ) % (N * SZ) : (q0 == 0 ? n0 : e0)));
        else
                assert(st.earliest_job == -1 && r == sub);

#elif ENTRY == 3 /* FLUSH_JOB */
        snap();
        IMB_JOB *r = FLUSH_JOB(&st);
        assert(R());
        assert((r == NULL) == (q0 == 0)); /* NULL iff empty */
        assert(st.imb_errno == 0);
        assert(st.next_job == n0);
        if (r) {
                assert(r == &st.jobs[e0 / SZ]);
                assert(r->status >= IMB_STATUS_COMPLETED);
                assert(qsize() == q0 - 1);
                if (q0 > 1)
                        assert(st.earliest_job == (e0 + SZ) % (N * SZ));
        } else
                assert(g_complete_calls == 0 && st.earliest_job == -1);

#elif ENTRY == 4 /* GET_COMPLETED_JOB */
        snap();
        IMB_JOB *r = GET_COMPLETED_JOB(&st);
        assert(R());
        assert(st.imb_errno == 0);
        assert(g_complete_calls == 0 && g_submit_calls == 0);
        assert((r != NULL) == (q0 > 0 && pre_status[e0 >= 0 ? e0 / SZ : 0] >= IMB_STATUS_COMPLETED));
        if (r) {
                assert(r == &st.jobs[e0 / SZ] && qsize() == q0 - 1);
                if (q0 > 1)
                        assert(st.earliest_job == (e0 + SZ) % (N * SZ));
        } else
                assert(st.earliest_job == e0);
        assert(st.next_job == n0);

#elif ENTRY == 5 /* GET_NEXT_JOB + QUEUE_SIZE */
        snap();
        IMB_JOB *r = GET_NEXT_JOB(&st);
        assert(st.imb_errno == 0);
        assert(r == &st.jobs[n0 / SZ]);
        assert(!in_window(slot_of(r))); /* a slot offered for filling is never one still awaiting return */
        assert(st.earliest_job == e0 && st.next_job == n0);
        st.imb_errno = nondet_int();
        assert(QUEUE_SIZE(&st) == q0);
        assert(st.imb_errno == 0);
        assert(st.earliest_job == e0 && st.next_job == n0);

#elif ENTRY == 6 /* GET_NEXT_BURST */
        static IMB_JOB *jobs[IMB_MAX_BURST_SIZE + 1];
        unsigned n_req = nondet_uint();
        snap();
        uint32_t got = GET_NEXT_BURST(&st, n_req, nondet_bool() ? jobs : NULL);
        assert(st.earliest_job == e0 && st.next_job == n0);
        if (got) {
                assert(st.imb_errno == 0);
                assert(n_req <= IMB_MAX_BURST_SIZE);
                const unsigned room = (unsigned) N - q0;
                assert(got == (n_req < room ? n_req : room));
                for (unsigned i = 0; i < got; i++) {
                        assert(jobs[i] == &st.jobs[(n0 / SZ + (int) i) % N]); /* consecutive from next_job, wrapping */
                        assert(!in_window(slot_of(jobs[i])));
                }
        } else
                assert(n_req == 0 || n_req > IMB_MAX_BURST_SIZE || st.imb_errno == IMB_ERR_NULL_BURST || q0 == (unsigned) N);

#elif ENTRY == 7 || ENTRY == 8 /* SUBMIT_BURST / SUBMIT_BURST_NOCHECK */
        static IMB_JOB *jobs[IMB_MAX_BURST_SIZE + 1];
        static IMB_JOB *jobs_in[IMB_MAX_BURST_SIZE + 1];
        unsigned n = nondet_uint();
        if (cfg_nj >= 0)
                __CPROVER_assume(n == (unsigned) cfg_nj);
#if ENTRY == 8
        /* documented caller obligations of the no-check variant */
        __CPROVER_assume(n <= IMB_MAX_BURST_SIZE && n <= (unsigned) N - q0);
        for (unsigned i = 0; i < n; i++)
                jobs[i] = &st.jobs[(n0 / SZ + (int) i) % N];
#else
        __CPROVER_assume(n <= IMB_MAX_BURST_SIZE + 1);
        /* The call inspects list entries up to the first offender only, so a list is, without loss of generality,
         * the expected consecutive slots with at most ONE corrupted entry (NULL or a different caller-owned slot)
         * and at most one corrupted suite id. */
        _Bool well_formed = 1;
        for (unsigned i = 0; i <= IMB_MAX_BURST_SIZE; i++)
                jobs[i] = &st.jobs[(n0 / SZ + (int) i) % N];
        for (unsigned i = 0; i < IMB_MAX_BURST_SIZE; i++)
                set_cipher_suite_id(jobs[i], jobs[i]->suite_id);
        const unsigned bad_i = nondet_uint(), bad_id = nondet_uint();
        static IMB_JOB foreign; /* a descriptor that is not the expected ring slot (which object it is does not matter to the code) */
        const _Bool bad_null = nondet_bool();
        const unsigned flip = 1 + (nondet_uint() & 0xff), which = nondet_bool();
        for (unsigned i = 0; i <= IMB_MAX_BURST_SIZE; i++) {
                if (i < n && i == bad_i) {
                        jobs[i] = bad_null ? NULL : &foreign;
                        well_formed = 0;
                } else if (i < n && i == bad_id && i < IMB_MAX_BURST_SIZE)
                        st.jobs[(n0 / SZ + (int) i) % N].suite_id[which] ^= flip;
        }
#endif
        for (unsigned i = 0; i <= IMB_MAX_BURST_SIZE; i++)
                jobs_in[i] = jobs[i];
        g_sub_lo = n0 / SZ; g_sub_n = (int) n;
        g_expected_next_submit = n0 / SZ;
        _Bool null_list = 0;
#if ENTRY == 7
        null_list = nondet_bool();
        snap();
        uint32_t ret = SUBMIT_BURST(&st, n, null_list ? NULL : jobs);
#else
        snap();
        uint32_t ret = SUBMIT_BURST_NOCHECK(&st, n, jobs);
#endif
        assert(R());
        const unsigned q1 = qsize();
        _Bool rejected = 0;
#if ENTRY == 7
        /* a suite id with ONE corrupted word is a mismatch the call must reject (independent of what the library reported) */
        const _Bool id_corrupt = bad_id < n && bad_id < IMB_MAX_BURST_SIZE && !(bad_i < n && bad_i == bad_id);
        rejected = null_list || n > IMB_MAX_BURST_SIZE || (unsigned) N - q0 < n || !well_formed || g_invalid_verdicts > 0 || id_corrupt ||
                   (st.imb_errno == IMB_ERR_BURST_SUITE_ID);
        if (rejected) {
                /* C12: misuse of the burst call => nothing submitted, ring untouched */
                assert(ret == 0 && g_submit_calls == 0);
                assert(st.earliest_job == e0 && st.next_job == n0);
                assert(st.imb_errno != 0);
                for (int k = 0; k < N; k++)
                        if (in_window_idx(e0, n0, k))
                                assert(st.jobs[k].status == pre_status[k]);
                if (!null_list && n <= IMB_MAX_BURST_SIZE && (unsigned) N - q0 >= n && st.imb_errno != IMB_ERR_NULL_JOB) {
                        assert(jobs[0] != NULL && jobs[0]->status == IMB_STATUS_INVALID_ARGS && (jobs[0] == &foreign || jobs[0] == jobs_in[0] || !in_window_idx(e0, n0, slot_of(jobs[0])))); /* offender handed back first */
                }
        } else
#endif
        {
                assert(g_submit_calls == n && g_order_ok); /* every job submitted exactly once, in list order */
                assert(ret <= n || q0 > 0);
                assert(q1 == q0 + n - ret);
                if (ret > 0 || n == 0) {
                        assert(st.imb_errno == 0);
                }
                const int first = q0 == 0 ? n0 / SZ : e0 / SZ;
                for (unsigned i = 0; i < ret && i <= IMB_MAX_BURST_SIZE; i++) {
                        assert(jobs[i] == &st.jobs[(first + (int) i) % N]); /* oldest first, consecutive */
                        assert(jobs[i]->status >= IMB_STATUS_COMPLETED);
                }
                if (q1 > 0) {
                        assert(st.earliest_job == ((first + (int) ret) % N) * SZ);
                        assert(st.next_job == (n0 + (int) n * SZ) % (N * SZ));
                }
        }

#elif ENTRY == 9 /* FLUSH_BURST */
        static IMB_JOB *jobs[2 * IMB_MAX_BURST_SIZE + 1];
        unsigned mx = nondet_uint();
        __CPROVER_assume(mx <= (unsigned) N);
        _Bool null_list = nondet_bool();
        snap();
        uint32_t ret = FLUSH_BURST(&st, mx, null_list ? NULL : jobs);
        assert(R());
        if (null_list) {
                assert(ret == 0 && st.imb_errno == IMB_ERR_NULL_BURST && st.earliest_job == e0 && st.next_job == n0);
        } else {
                assert(st.imb_errno == 0);
                assert(ret == (q0 < mx ? q0 : mx));
                for (unsigned i = 0; i < ret; i++) {
                        assert(jobs[i] == &st.jobs[(e0 / SZ + (int) i) % N]);
                        assert(jobs[i]->status >= IMB_STATUS_COMPLETED);
                }
                assert(qsize() == q0 - ret);
        }
#else
#error "ENTRY"
#endif

        check_desc();
#ifdef OTHER_MGR
        assert(((unsigned char *) &other)[other_k] == other_before); /* any byte of any other manager is untouched */
#endif
#ifdef WITNESS
        assert(0);
#endif
        return 0;
}
