/* C15: re-initialisation restores the pristine state.  For ONE out-of-order manager (index cfg_idx into the real
 * ooo_mgr_table[] of lib/x86_64/alloc.c) the variant's real reset_ooo_mgrs() is run twice: on a manager whose memory is
 * ARBITRARY (jobs in flight, residue of any history, any earlier variant) and on zero-filled memory (what a fresh
 * allocation looks like).  Every byte below the road block must come out identical, so no residue can survive, a manager
 * missing from reset_ooo_mgrs() is a counterexample, and the result does not depend on the pre-state.
 * Also: init_mb_mgr_<arch>_internal(state, 1) empties the in-order ring. */
#include ARCH_FILE
#include "x86_64/alloc.c"
#include "x86_64/ooo_mgr_reset.c"
#include <assert.h>
#undef assert
#define assert(c) __CPROVER_assert((c), #c)
volatile int imb_errno;
extern const int cfg_idx;
size_t nondet_size(void);
static IMB_MGR st1, st2;

static uint8_t *
mk(size_t n, int havoc)
{
        uint8_t *p = malloc(n);
        __CPROVER_assume(p != NULL);
        if (!havoc)
                memset(p, 0, n);
        return p; /* malloc'ed memory is nondeterministic in CBMC: the arbitrary pre-state */
}

int
main(void)
{
        const unsigned n = IMB_DIM(ooo_mgr_table);
        assert(cfg_idx >= 0 && (unsigned) cfg_idx < n);
        uint8_t *a = NULL, *b = NULL;
        /* every other manager pointer refers to one scratch object large enough for any manager: their content is irrelevant
         * to this query, but reset_ooo_mgrs() must be able to write through all of them */
        size_t maxsz = 0;
        for (unsigned i = 0; i < IMB_DIM(ooo_mgr_table); i++)
                if (ooo_mgr_table[i].ooo_aligned_size > maxsz)
                        maxsz = ooo_mgr_table[i].ooo_aligned_size;
        uint8_t *scratch = mk(maxsz, 1);
        for (unsigned i = 0; i < IMB_DIM(ooo_mgr_table); i++) {
                set_ooo_ptr(&st1, ooo_mgr_table[i].ooo_ptr_offset, scratch);
                set_ooo_ptr(&st2, ooo_mgr_table[i].ooo_ptr_offset, scratch);
        }
        a = mk(ooo_mgr_table[cfg_idx].ooo_aligned_size, 1);
        b = mk(ooo_mgr_table[cfg_idx].ooo_aligned_size, 0);
        set_ooo_ptr(&st1, ooo_mgr_table[cfg_idx].ooo_ptr_offset, a);
        set_ooo_ptr(&st2, ooo_mgr_table[cfg_idx].ooo_ptr_offset, b);
        st1.features = st2.features = ~(uint64_t) 0;
        st1.next_job = (int) nondet_size();
        st1.earliest_job = (int) nondet_size();
        const size_t lim = ooo_mgr_table[cfg_idx].road_block_offset;
        const size_t k = nondet_size();
        __CPROVER_assume(k < lim);
#ifdef NORESET
        /* C16: re-binding the function pointers without reset (re-attach) must not touch any scheduling state */
        const uint8_t before = a[k];
        const int e0 = st1.earliest_job, n0 = st1.next_job;
        INIT_FN(&st1, 0);
        assert(a[k] == before);
        assert(st1.earliest_job == e0 && st1.next_job == n0);
        assert(st1.submit_job == SUBMIT_JOB && st1.flush_job == FLUSH_JOB && st1.get_completed_job == GET_COMPLETED_JOB &&
               st1.queue_size == QUEUE_SIZE && st1.get_next_job == GET_NEXT_JOB && st1.flush_burst == FLUSH_BURST);
#else
        INIT_FN(&st1, 1);
        INIT_FN(&st2, 1);
        assert(a[k] == b[k]); /* for an arbitrary byte below the road block */
        assert(st1.next_job == 0 && st1.earliest_job == -1); /* empty ring: nothing to flush or collect */
        assert(QUEUE_SIZE(&st1) == 0 && FLUSH_JOB(&st1) == NULL && GET_COMPLETED_JOB(&st1) == NULL);
#endif
#ifdef WITNESS
        assert(0);
#endif
        return 0;
}
