/* C20: the real lib/x86_64/self_test.c driven through stub API function pointers that model CORRECT, INJECTIVE crypto:
 * a known-answer comparison matches iff the input of that test was not corrupted by the callback.  The callback corrupts
 * according to an arbitrary (symbolic) subset of the tests, so every single fault and every combination is one query. */
#include <string.h>
#include <stdint.h>
#include "intel-ipsec-mb.h"
#undef assert
#define assert(c) __CPROVER_assert((c), #c)
_Bool nondet_bool(void);
#define MAXT 64
static _Bool corrupt[MAXT], cb_corrupt_made[MAXT], got_pass[MAXT], got_fail[MAXT];
static const char *descr[MAXT], *type[MAXT];
static int ntests = 0;
static _Bool pending; /* the current test's input has been corrupted */
static unsigned n_cipher, n_auth, n_aead, n_order_violations;
static int section = 0; /* 1 cipher, 2 auth, 3 aead: START events must come grouped in this order */

/* libc stubs */
static int my_memcmp(const void *a, const void *b, size_t n) { (void) a; (void) b; (void) n; return pending ? 1 : 0; }
static void *my_memcpy(void *d, const void *s, size_t n) { (void) s; (void) n; return d; }
static void *my_memset(void *d, int c, size_t n) { (void) c; (void) n; return d; }
#define memcmp my_memcmp
#define memcpy my_memcpy
#define memset my_memset
int imb_get_errno(IMB_MGR *m) { return m->imb_errno; }
volatile int imb_errno;
int des_key_schedule(uint64_t *ks, const void *key) { (void) ks; (void) key; return 0; }
void imb_hmac_ipad_opad(IMB_MGR *m, const IMB_HASH_ALG a, const void *k, const size_t kl, void *ip, void *op)
{ (void) m; (void) a; (void) k; (void) kl; (void) ip; (void) op; }
#include "x86_64/self_test.c"
#undef memcmp
#undef memcpy
#undef memset

static IMB_JOB the_job;
static IMB_JOB *s_get_next_job(IMB_MGR *m) { (void) m; return &the_job; }
static IMB_JOB *s_submit_job(IMB_MGR *m) { m->imb_errno = 0; the_job.status = IMB_STATUS_COMPLETED; return &the_job; }
static IMB_JOB *s_flush_job(IMB_MGR *m) { (void) m; return NULL; }
static void s_keyexp(const void *a, void *b, void *c) { (void) a; (void) b; (void) c; }
static void s_hash(const void *a, const uint64_t n, void *c) { (void) a; (void) n; (void) c; }
static void s_gcm_pre(const void *k, struct gcm_key_data *d) { (void) k; (void) d; }
static void s_gcm_init(const struct gcm_key_data *k, struct gcm_context_data *c, const uint8_t *iv, const uint64_t ivl, const uint8_t *aad, const uint64_t al)
{ (void) k; (void) c; (void) iv; (void) ivl; (void) aad; (void) al; }
static void s_gcm_upd(const struct gcm_key_data *k, struct gcm_context_data *c, uint8_t *o, const uint8_t *i, uint64_t l)
{ (void) k; (void) c; (void) o; (void) i; (void) l; }
static void s_gcm_fin(const struct gcm_key_data *k, struct gcm_context_data *c, uint8_t *t, uint64_t l) { (void) k; (void) c; (void) t; (void) l; }
static void s_gmac_init(const struct gcm_key_data *k, struct gcm_context_data *c, const uint8_t *iv, const uint64_t l) { (void) k; (void) c; (void) iv; (void) l; }
static void s_gmac_upd(const struct gcm_key_data *k, struct gcm_context_data *c, const uint8_t *s, const uint64_t l) { (void) k; (void) c; (void) s; (void) l; }
static void s_gmac_fin(const struct gcm_key_data *k, struct gcm_context_data *c, uint8_t *t, const uint64_t l) { (void) k; (void) c; (void) t; (void) l; }

static int
cb(void *arg, const IMB_SELF_TEST_CALLBACK_DATA *d)
{
        (void) arg;
        const char p = d->phase[0]; /* START / PASS / FAIL / CORRUPT */
        if (p == 'S') {
                assert(ntests < MAXT);
                pending = 0;
                descr[ntests] = d->descr;
                type[ntests] = d->type;
                assert(d->descr != NULL && d->type != NULL);
                const int sec = d->type[4] == 'C' ? 1 : (d->type[5] == 'u' ? 2 : 3); /* KAT_Cipher / KAT_Auth / KAT_AEAD */
                if (sec < section) n_order_violations++;
                section = sec;
                if (sec == 1) n_cipher++; else if (sec == 2) n_auth++; else n_aead++;
                ntests++;
                return 1;
        }
        assert(ntests > 0);
        const int i = ntests - 1;
        if (p == 'C') {
                assert(!cb_corrupt_made[i]); /* one corruption opportunity per test */
                cb_corrupt_made[i] = 1;
                if (corrupt[i]) { pending = 1; return 0; }
                return 1;
        }
        if (p == 'P') { assert(!got_pass[i] && !got_fail[i]); got_pass[i] = 1; return nondet_bool(); }
        if (p == 'F') { assert(!got_pass[i] && !got_fail[i]); got_fail[i] = 1; return nondet_bool(); }
        assert(0);
        return 1;
}

static IMB_MGR mgr;
int
main(void)
{
        for (int i = 0; i < MAXT; i++)
                corrupt[i] = nondet_bool();
#ifdef SINGLE_FAULT
        /* exactly one corrupted test */
        int cnt = 0;
        for (int i = 0; i < MAXT; i++) cnt += corrupt[i];
        __CPROVER_assume(cnt == 1);
#endif
        mgr.get_next_job = s_get_next_job; mgr.submit_job = s_submit_job; mgr.flush_job = s_flush_job;
        mgr.keyexp_128 = mgr.keyexp_192 = mgr.keyexp_256 = s_keyexp;
        mgr.cmac_subkey_gen_128 = mgr.cmac_subkey_gen_256 = s_keyexp;
        mgr.sha1 = mgr.sha224 = mgr.sha256 = mgr.sha384 = mgr.sha512 = s_hash;
        mgr.gcm128_pre = mgr.gcm192_pre = mgr.gcm256_pre = s_gcm_pre;
        mgr.gcm128_init_var_iv = mgr.gcm192_init_var_iv = mgr.gcm256_init_var_iv = s_gcm_init;
        mgr.gcm128_enc_update = mgr.gcm192_enc_update = mgr.gcm256_enc_update = s_gcm_upd;
        mgr.gcm128_dec_update = mgr.gcm192_dec_update = mgr.gcm256_dec_update = s_gcm_upd;
        mgr.gcm128_enc_finalize = mgr.gcm192_enc_finalize = mgr.gcm256_enc_finalize = s_gcm_fin;
        mgr.gcm128_dec_finalize = mgr.gcm192_dec_finalize = mgr.gcm256_dec_finalize = s_gcm_fin;
        mgr.gmac128_init = mgr.gmac192_init = mgr.gmac256_init = s_gmac_init;
        mgr.gmac128_update = mgr.gmac192_update = mgr.gmac256_update = s_gmac_upd;
        mgr.gmac128_finalize = mgr.gmac192_finalize = mgr.gmac256_finalize = s_gmac_fin;
        assert(imb_self_test_set_cb(&mgr, cb, NULL) == 0);
        mgr.features = nondet_bool() ? IMB_FEATURE_SELF_TEST_PASS : 0; /* stale bits from an earlier init */

        const int r = self_test(&mgr);

        int any = 0;
        for (int i = 0; i < MAXT; i++) {
                if (i < ntests) {
                        assert(cb_corrupt_made[i]);                   /* every tested algorithm offers the corruption hook */
                        assert(got_fail[i] == corrupt[i]);            /* FAIL for exactly the corrupted algorithms */
                        assert(got_pass[i] == !corrupt[i]);           /* PASS for the rest */
                        any |= corrupt[i];
                } else
                        assert(!got_pass[i] && !got_fail[i] && !cb_corrupt_made[i]);
        }
        assert((r == 1) == !any);                                                     /* success only if every KAT passed */
        assert(((mgr.features & IMB_FEATURE_SELF_TEST_PASS) != 0) == !any);            /* pass bit */
        assert((mgr.features & IMB_FEATURE_SELF_TEST) != 0);
        assert(n_order_violations == 0);
        /* documented coverage (README "Self-Test"): 13 cipher KATs (AES-CBC/CTR/ECB/CFB x 3 key sizes, TDES), auth and AEAD groups non-empty */
        assert(n_cipher == 13);
        assert(n_auth >= 5 + 5 + 2 + 3); /* SHA1..512, HMAC-SHA1..512, CMAC 128/256, GMAC 128/192/256 */
        assert(n_aead >= 3 + 1);         /* GCM 128/192/256, CCM */
        assert(ntests == (int) (n_cipher + n_auth + n_aead));
#ifdef WITNESS
        assert(0);
#endif
        return 0;
}
