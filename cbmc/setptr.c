/* C16 (i): imb_set_pointers_mb_mgr(ptr, flags, 0) on an ARBITRARY memory image (the state a crashed process left behind):
 *  - the out-of-order manager pointers are a pure function of ptr (what alloc_mb_mgr() computed in the first process):
 *    consecutive, 64-byte aligned, inside the block, non-overlapping
 *  - the in-order ring (jobs[], earliest_job, next_job) and every out-of-order manager byte below its road block are preserved
 *  - function pointers are re-bound through init_mb_mgr_<used_arch>_internal(ptr, 0) exactly once
 *  - ooo_mgr_table[] covers every *_ooo pointer field of IMB_MGR (count cross-checked by the runner) */
#include "x86_64/alloc.c"
#include <assert.h>
#undef assert
#define assert(c) __CPROVER_assert((c), #c)
volatile int imb_errno;
size_t nondet_size(void);
uint64_t nondet_u64(void);
static unsigned calls[4];
void init_mb_mgr_sse_internal(IMB_MGR *s, const int r) { assert(r == 0); (void) s; calls[1]++; }
void init_mb_mgr_avx2_internal(IMB_MGR *s, const int r) { assert(r == 0); (void) s; calls[2]++; }
void init_mb_mgr_avx512_internal(IMB_MGR *s, const int r) { assert(r == 0); (void) s; calls[3]++; }
uint64_t cpu_feature_detect(void) { return nondet_u64(); }
uint64_t cpu_feature_adjust(const uint64_t flags, uint64_t features) { (void) flags; return features; }
/* The only writes the function makes outside the IMB_MGR header are the road-block words.  The harness maps just the header
 * (any other access is then an out-of-bounds finding) and replaces set_road_block() by a recorder (goto-instrument). */
static uint8_t *g_mem;
static unsigned n_rb;
static size_t rb_pos[64];
void stub_set_road_block(uint8_t *ooo_ptr, const size_t offset) { assert(n_rb < 64); assert(__CPROVER_same_object(ooo_ptr, g_mem)); rb_pos[n_rb++] = (size_t) __CPROVER_POINTER_OFFSET(ooo_ptr) + offset; }

int
main(void)
{
        const size_t sz = imb_get_mb_mgr_size();
        const size_t hdr = (sizeof(IMB_MGR) + 63) & ~(size_t) 63;
        uint8_t *mem = malloc(hdr); /* arbitrary content; only the header is mapped (see above) */
        __CPROVER_assume(mem != NULL);
        g_mem = mem;
        IMB_MGR *m = (IMB_MGR *) mem;
        const uint32_t arch = m->used_arch;
        /* an arbitrary byte of the block, remembered */
        const size_t k = nondet_size();
        __CPROVER_assume(k < hdr);
        const uint8_t before = mem[k];
        const int e0 = m->earliest_job, n0 = m->next_job;
        const uint64_t flags = nondet_u64();

        IMB_MGR *r = imb_set_pointers_mb_mgr(mem, flags, 0);

        assert(r == m);
        assert(m->earliest_job == e0 && m->next_job == n0);
        assert(calls[1] + calls[2] + calls[3] == (arch == IMB_ARCH_SSE || arch == IMB_ARCH_AVX2 || arch == IMB_ARCH_AVX512));
        assert(calls[1] == (arch == IMB_ARCH_SSE) && calls[2] == (arch == IMB_ARCH_AVX2) && calls[3] == (arch == IMB_ARCH_AVX512));
        assert(m->flags == flags && m->imb_errno == 0);
        /* pointers: pure function of the block address */
        size_t off = (sizeof(IMB_MGR) + 63) & ~(size_t) 63;
        assert(n_rb == IMB_DIM(ooo_mgr_table));
        for (unsigned i = 0; i < IMB_DIM(ooo_mgr_table); i++) {
                uint8_t *p = get_ooo_ptr(m, ooo_mgr_table[i].ooo_ptr_offset);
                assert(__CPROVER_same_object(p, mem) && (size_t) __CPROVER_POINTER_OFFSET(p) == off);
                assert(off % 64 == 0);
                assert(ooo_mgr_table[i].road_block_offset + 8 <= ooo_mgr_table[i].ooo_aligned_size);
                assert(off + ooo_mgr_table[i].ooo_aligned_size <= sz);
                assert(rb_pos[i] == off + ooo_mgr_table[i].road_block_offset); /* the only write into manager i: its road block */
                off += ooo_mgr_table[i].ooo_aligned_size;
        }
        const size_t j0 = offsetof(IMB_MGR, jobs);
        if (k >= j0 && k < j0 + sizeof(m->jobs))
                assert(mem[k] == before); /* scheduling state is preserved byte for byte */
#ifdef WITNESS
        assert(0);
#endif
        return 0;
}
