/* C06/C09 L2+L3: for ONE table cell (concrete cipher_mode/key size/direction or hash_alg, supplied by a linked
 * configuration unit) run the real dispatcher of the variant file on a fully symbolic job/manager.  Every function that
 * has no C body (assembly kernels and managers, libc) was given the body `assert(false)` by
 * goto-instrument --generate-function-body, so the set of FAILED generated assertions is exactly the set of leaf
 * routines reachable for that cell over all job contents.  The runner compares that set with the naming oracle. */
#include ARCH_FILE
volatile int imb_errno;
extern const int cfg_kind;  /* 0 submit cipher, 1 flush cipher, 2 submit hash, 3 flush hash, 4..7 the same through suite_id (burst) */
extern const int cfg_mode, cfg_key, cfg_dir, cfg_hash;
static IMB_MGR st;
static IMB_JOB job;
static IMB_JOB jobs2[2];
int
main(void)
{
        __CPROVER_havoc_object(&st);
        /* the function-pointer table of the manager is the one the variant's own init installs (some cells dispatch through it) */
        st.features = ~(uint64_t) 0;
        INIT_FN(&st, 0);
        __CPROVER_havoc_object(&job);
        job.cipher_mode = (IMB_CIPHER_MODE) cfg_mode;
        job.key_len_in_bytes = (uint64_t) cfg_key;
        job.cipher_direction = (IMB_CIPHER_DIRECTION) cfg_dir;
        job.hash_alg = (IMB_HASH_ALG) cfg_hash;
        if (cfg_kind >= 4) {
                /* burst path: ids as computed by the library for this session */
                set_cipher_suite_id(&job, job.suite_id);
                job.cipher_mode = 0; /* the burst dispatch must not depend on these any more */
                job.hash_alg = 0;
        }
        switch (cfg_kind) {
        case 0: (void) SUBMIT_JOB_CIPHER(&st, &job); break;
        case 1: (void) FLUSH_JOB_CIPHER(&st, &job); break;
        case 2: (void) SUBMIT_JOB_HASH(&st, &job); break;
        case 3: (void) FLUSH_JOB_HASH(&st, &job); break;
        case 4: (void) CALL_SUBMIT_CIPHER(&st, &job); break;
        case 5: (void) CALL_FLUSH_CIPHER(&st, &job); break;
        case 6: (void) CALL_SUBMIT_HASH(&st, &job); break;
        case 7: (void) CALL_FLUSH_HASH(&st, &job); break;
        /* synchronous bursts (C09): two jobs, no-check variants; the private submit+flush loops run over the same managers */
        case 8: jobs2[0] = job; jobs2[1] = job; (void) SUBMIT_CIPHER_BURST_NOCHECK(&st, jobs2, 2, (IMB_CIPHER_MODE) cfg_mode, (IMB_CIPHER_DIRECTION) cfg_dir, (IMB_KEY_SIZE_BYTES) cfg_key); break;
        case 9: jobs2[0] = job; jobs2[1] = job; (void) SUBMIT_HASH_BURST_NOCHECK(&st, jobs2, 2, (IMB_HASH_ALG) cfg_hash); break;
        case 10: jobs2[0] = job; jobs2[1] = job; (void) SUBMIT_AEAD_BURST_NOCHECK(&st, jobs2, 2, (IMB_CIPHER_MODE) cfg_mode, (IMB_CIPHER_DIRECTION) cfg_dir, (IMB_KEY_SIZE_BYTES) cfg_key); break;
        }
        return 0;
}
