/* C10: the real ChaCha20-Poly1305 streaming glue (lib/x86_64/chacha20_poly1305.c): direct init -> update x k -> finalize
 * (SSE entry points) for EVERY partition of the message into k <= NSEG segments of symbolic lengths (empty segments, splits
 * inside a 16-byte Poly1305 block and inside a 64-byte keystream block), both directions.
 * Ghost kernels: poly1305_aead_update appends its bytes, zero padded to 16, to a stream; chacha20_enc_dec_ks XORs with an
 * uninterpreted keystream of the absolute position it is handed through ctx.  Obligations: the Poly1305 input stream equals
 *   pad16(AAD) || pad16(CT) || le64(|AAD|) || le64(|CT|)
 * and the output equals input XOR keystream(position) - i.e. both are independent of the segmentation and equal the one-shot. */
#include <string.h>
#include <stdint.h>
#include "intel-ipsec-mb.h"
#undef assert
#define assert(c) __CPROVER_assert((c), #c)
#ifndef NSEG
#define NSEG 3
#endif
#ifndef MAXSEG
#define MAXSEG 20
#endif
#define MAXAAD 20
#define MAXMSG (NSEG * MAXSEG)
#define MAXSTREAM (32 + MAXMSG + 16 + 16 + 16)
size_t nondet_size(void);
_Bool nondet_bool(void);
unsigned char nondet_uchar(void);
uint8_t __CPROVER_uninterpreted_ks(uint64_t pos);
volatile int imb_errno;
extern const int cfg_seg[4], cfg_aad, cfg_enc; /* -1 = symbolic */

static uint8_t stream[MAXSTREAM];
static size_t slen;
static uint64_t ks_pos;           /* absolute keystream position consumed so far */
static int ks_contiguous = 1;
static int poly_key_ok = 1;
static uint8_t poly_key_tag[32];

void poly1305_aead_update_scalar(const void *msg, const uint64_t msg_len, void *hash, const void *key)
{
        (void) hash;
        for (unsigned i = 0; i < 32; i++)
                if (((const uint8_t *) key)[i] != poly_key_tag[i]) poly_key_ok = 0;
        for (uint64_t i = 0; i < msg_len && i < MAXMSG + 32; i++) {
                assert(slen < MAXSTREAM);
                stream[slen++] = ((const uint8_t *) msg)[i];
        }
        while (slen % 16 != 0) {
                assert(slen < MAXSTREAM);
                stream[slen++] = 0;
        }
}
void poly1305_aead_complete_scalar(const void *hash, const void *key, void *tag) { (void) hash; (void) key; for (int i = 0; i < 16; i++) ((uint8_t *) tag)[i] = (uint8_t) (0xA0 + i); }
void poly1305_key_gen_sse(const void *key, const void *iv, void *poly_key) { (void) key; (void) iv; for (int i = 0; i < 32; i++) ((uint8_t *) poly_key)[i] = poly_key_tag[i]; }
void chacha20_enc_dec_ks_sse(const void *src, void *dst, const uint64_t length, const void *key, struct chacha20_poly1305_context_data *ctx)
{
        (void) key; (void) ctx;
        for (uint64_t i = 0; i < length && i < MAXSEG + 1; i++)
                ((uint8_t *) dst)[i] = ((const uint8_t *) src)[i] ^ __CPROVER_uninterpreted_ks(ks_pos + i);
        ks_pos += length;
}
#ifdef JOBPATH
/* ghost kernels of the single-job path: whole-message keystream XOR from position 0, Poly1305 key = first 32 keystream bytes */
IMB_JOB *submit_job_chacha20_poly_enc_sse(IMB_JOB *job, void *poly_key)
{
        const uint8_t *s = job->src + job->cipher_start_src_offset_in_bytes;
        for (uint64_t i = 0; i < job->msg_len_to_cipher_in_bytes && i < MAXMSG + 1; i++)
                job->dst[i] = s[i] ^ __CPROVER_uninterpreted_ks(i);
        ks_pos += job->msg_len_to_cipher_in_bytes;
        for (int i = 0; i < 32; i++) ((uint8_t *) poly_key)[i] = poly_key_tag[i];
        return job;
}
static uint8_t ghost_ks_base[1];
void gen_keystr_poly_key_sse(const void *key, const void *iv, const uint64_t len, void *ks)
{
        (void) key; (void) iv; (void) len;
        for (int i = 0; i < 32; i++) ((uint8_t *) ks)[i] = poly_key_tag[i];
}
IMB_JOB *submit_job_chacha20_poly_dec_sse(IMB_JOB *job, const void *ks, const uint64_t len_to_xor)
{
        (void) ks; (void) len_to_xor;   /* the pre-generated keystream is the same uninterpreted function of the position */
        const uint8_t *s = job->src + job->cipher_start_src_offset_in_bytes;
        for (uint64_t i = 0; i < job->msg_len_to_cipher_in_bytes && i < MAXMSG + 1; i++)
                job->dst[i] = s[i] ^ __CPROVER_uninterpreted_ks(i);
        ks_pos += job->msg_len_to_cipher_in_bytes;
        return job;
}
#endif
void force_memset_zero(void *p, const size_t n) { (void) p; (void) n; }
void memcpy_fn_sse_16(void *dst, const void *src, const size_t size) { for (size_t i = 0; i < size && i < 17; i++) ((uint8_t *) dst)[i] = ((const uint8_t *) src)[i]; }
/* kernels of the other variants / paths are not reachable from the SSE entry points used here */
#include "x86_64/chacha20_poly1305.c"

static uint8_t aad[MAXAAD + 1], in[MAXMSG + 1], out[MAXMSG + 1], tag[16];
int
main(void)
{
        static struct chacha20_poly1305_context_data ctx;
        static uint8_t key[32], iv[12];
        for (int i = 0; i < 32; i++) poly_key_tag[i] = nondet_uchar();
        for (int i = 0; i < MAXAAD; i++) aad[i] = nondet_uchar();
        for (int i = 0; i < MAXMSG; i++) in[i] = nondet_uchar();
        __CPROVER_havoc_object(&ctx); /* a context left over from anything */
        const size_t aad_len = nondet_size();
        __CPROVER_assume(aad_len <= MAXAAD);
        if (cfg_aad >= 0) __CPROVER_assume(aad_len == (size_t) cfg_aad);
        const _Bool enc = cfg_enc >= 0 ? (_Bool) cfg_enc : nondet_bool();
        size_t seg[NSEG], total = 0;
        for (int s = 0; s < NSEG; s++) {
                seg[s] = nondet_size();
                __CPROVER_assume(seg[s] <= MAXSEG);
                if (cfg_seg[s] >= 0) __CPROVER_assume(seg[s] == (size_t) cfg_seg[s]);
        }
#ifdef JOBPATH
        /* the single-job entry point (IMB_CIPHER_CHACHA20_POLY1305 / IMB_AUTH_CHACHA20_POLY1305) on the same work item */
        static IMB_JOB job;
        __CPROVER_havoc_object(&job);
        for (int s = 0; s < NSEG; s++) total += seg[s];
        job.cipher_direction = enc ? IMB_DIR_ENCRYPT : IMB_DIR_DECRYPT;
        job.src = in; job.dst = out; job.cipher_start_src_offset_in_bytes = 0; job.hash_start_src_offset_in_bytes = 0;
        job.msg_len_to_cipher_in_bytes = total; job.msg_len_to_hash_in_bytes = total;
        job.enc_keys = key; job.dec_keys = key; job.iv = iv; job.iv_len_in_bytes = 12;
        job.u.CHACHA20_POLY1305.aad = aad; job.u.CHACHA20_POLY1305.aad_len_in_bytes = aad_len;
        job.auth_tag_output = tag; job.auth_tag_output_len_in_bytes = 16;
        IMB_JOB *rj = aead_chacha20_poly1305_sse((IMB_MGR *) 0, &job);
        assert(rj == &job && job.status == IMB_STATUS_COMPLETED);
        const size_t tag_len = 16;
#else
        init_chacha20_poly1305_sse(key, &ctx, iv, aad, aad_len);
        for (int s = 0; s < NSEG; s++) {
                if (enc)
                        update_enc_chacha20_poly1305_sse(key, &ctx, out + total, in + total, seg[s]);
                else
                        update_dec_chacha20_poly1305_sse(key, &ctx, out + total, in + total, seg[s]);
                total += seg[s];
        }
        const size_t tag_len = nondet_size();
        __CPROVER_assume(tag_len >= 1 && tag_len <= 16);
        finalize_chacha20_poly1305_sse(&ctx, tag, tag_len);
#endif

        assert(poly_key_ok);
        assert(ks_pos == total);
        /* output = input XOR keystream(position): independent of the segmentation */
        const size_t i = nondet_size();
        if (i < total)
                assert(out[i] == (uint8_t) (in[i] ^ __CPROVER_uninterpreted_ks(i)));
        /* Poly1305 input stream */
        const size_t pa = (aad_len + 15) & ~(size_t) 15, pc = (total + 15) & ~(size_t) 15;
        assert(slen == pa + pc + 16);
        const size_t j = nondet_size();
        __CPROVER_assume(j < slen);
        const uint8_t *ct = enc ? out : in; /* the authenticated data is always the ciphertext */
        uint8_t exp;
        if (j < pa) exp = j < aad_len ? aad[j] : 0;
        else if (j < pa + pc) exp = (j - pa) < total ? ct[j - pa] : 0;
        else if (j < pa + pc + 8) exp = (uint8_t) ((uint64_t) aad_len >> (8 * (j - pa - pc)));
        else exp = (uint8_t) ((uint64_t) total >> (8 * (j - pa - pc - 8)));
        assert(stream[j] == exp);
        /* tag truncation */
        const size_t t = nondet_size();
        if (t < tag_len) assert(tag[t] == (uint8_t) (0xA0 + t));
#ifdef WITNESS
        assert(0);
#endif
        return 0;
}
