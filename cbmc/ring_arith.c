/* C05: the ring's modular arithmetic at the REAL size (IMB_MAX_JOBS = 256, bursts 0..128), as pure integer functions
 * taken from the real headers (mb_mgr_code.h, mb_mgr_burst_async.h via the sse_t1 variant file). */
#include "sse_t1/mb_mgr_sse_t1.c"
#include <assert.h>
#undef assert /* the repo is built with -DNDEBUG: use CBMC assertions, which NDEBUG does not remove */
#define assert(c) __CPROVER_assert((c), #c)
volatile int imb_errno;
int nondet_int(void);
unsigned nondet_uint(void);
#define N ((int) IMB_MAX_JOBS)
#define SZ ((int) sizeof(IMB_JOB))
static IMB_MGR st;
int
main(void)
{
        assert(IMB_MAX_JOBS == 256 && IMB_MAX_BURST_SIZE == 128);
        assert((IMB_MAX_JOBS & (IMB_MAX_JOBS - 1)) == 0); /* get_queue_sz masks with IMB_MAX_JOBS-1 */
        const int e = nondet_int(), n = nondet_int();
        __CPROVER_assume(n >= 0 && n % SZ == 0 && n < N * SZ);
        __CPROVER_assume(e == -1 || (e >= 0 && e % SZ == 0 && e < N * SZ));
        st.earliest_job = e;
        st.next_job = n;
        /* independent size: 0 if empty, distance mod N, N when earliest==next (full) */
        unsigned ref = 0;
        if (e >= 0) {
                int d = (n - e) / SZ;
                if (d <= 0)
                        d += N;
                ref = (unsigned) d;
        }
        assert(queue_sz(&st) == ref);
        assert(queue_sz_remaining(&st) == (unsigned) N - ref);
        assert(get_queue_sz_end(n) == (unsigned) (N - n / SZ));
        int p = n;
        ADV_JOBS(&p);
        assert(p == (n + SZ) % (N * SZ));
        const unsigned k = nondet_uint();
        __CPROVER_assume(k <= IMB_MAX_BURST_SIZE);
        p = n;
        ADV_N_JOBS(&p, k);
        assert(p == (n + (int) k * SZ) % (N * SZ));
        assert(JOBS(&st, n) == &st.jobs[n / SZ]);
#ifdef WITNESS
        assert(0);
#endif
        return 0;
}
