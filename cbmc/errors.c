/* C14: error-code plumbing of the real lib/x86_64/error.c + include/error.h.
 *  - imb_get_strerror() is total: for EVERY int it returns a non-NULL string; every library code in
 *    (IMB_ERR_MIN, IMB_ERR_MAX) has its own library message (never falls through to strerror, never "Unknown error");
 *    codes >= IMB_ERR_MAX give "Unknown error"
 *  - imb_errno_types[] lists every library code exactly once
 *  - imb_set_errno/imb_get_errno: per-manager code wins when non-zero, the process-wide mirror is kept equal */
#include "x86_64/error.c"
#include <assert.h>
#undef assert
#define assert(c) __CPROVER_assert((c), #c)
int nondet_int(void);
unsigned nondet_uint(void);
static char sentinel[] = "strerror";
char *strerror(int e) { (void) e; return sentinel; }
static int
streq(const char *a, const char *b)
{
        for (int i = 0; i < 16; i++) {
                if (a[i] != b[i]) return 0;
                if (!a[i]) return 1;
        }
        return 1;
}
int
main(void)
{
        const int e = nondet_int();
        const char *s = imb_get_strerror(e);
        assert(s != NULL);
        if (e > IMB_ERR_MIN && e < IMB_ERR_MAX) {
                assert(s != sentinel);
                assert(!streq(s, "Unknown error"));
                assert(!streq(s, "No error"));
                /* the code is listed in imb_errno_types[] exactly once */
                int hits = 0;
                for (unsigned i = 0; i < IMB_DIM(imb_errno_types); i++)
                        hits += imb_errno_types[i] == e;
                assert(hits == 1);
        }
        if (e >= IMB_ERR_MAX)
                assert(streq(s, "Unknown error"));
        if (e == 0)
                assert(streq(s, "No error"));
        assert(IMB_DIM(imb_errno_types) + 1 == IMB_ERR_MAX - IMB_ERR_MIN);
        /* two different library codes never share a message */
        const int f = nondet_int();
        if (e > IMB_ERR_MIN && e < IMB_ERR_MAX && f > IMB_ERR_MIN && f < IMB_ERR_MAX && e != f)
                assert(imb_get_strerror(f) != s);

        static IMB_MGR m;
        m.imb_errno = nondet_int();
        imb_errno = nondet_int();
        const int code = nondet_int();
        imb_set_errno(&m, code);
        assert(m.imb_errno == code && imb_errno == code);
        assert(imb_get_errno(&m) == code);
        imb_set_errno(NULL, f);
        assert(m.imb_errno == code && imb_errno == f);
        assert(imb_get_errno(&m) == (code ? code : f));
        assert(imb_get_errno(NULL) == f);
#ifdef WITNESS
        assert(0);
#endif
        return 0;
}
