/* C12 / C06: differential harness  is_job_invalid()  vs  an independent constraint catalogue.
 *
 * The catalogue is SET based: for a descriptor it computes the set of violated documented constraints
 * (bit = error code).  Obligations:
 *   (a) is_job_invalid() != 0   <=>  the set is non-empty            (soundness AND completeness)
 *   (b) when it rejects, the manager's errno is a member of the set  ("names a violated constraint")
 *   (c) the descriptor is bit-identical afterwards
 *   (d) the dedicated AEAD/combined ciphers and hashes are accepted only with each other
 * Numbers in the catalogue are literals taken from the documentation (intel-ipsec-mb.h doc comments,
 * README, RFCs), deliberately not the library's macros.
 *
 * -DMODE_LO/-DMODE_HI select the slice of cipher modes covered by one query (case split, see DESIGN §4 C12).
 */
#include <stdlib.h>
#include <stdint.h>
#include <stddef.h>
#include <errno.h>
#include "intel-ipsec-mb.h"
#include "include/error.h"
#include "include/mb_mgr_job_check.h"

volatile int imb_errno;
_Bool nondet_bool(void);
uint64_t nondet_u64(void);
unsigned nondet_uint(void);
IMB_JOB nondet_job(void);

#define B(e) (UINT64_C(1) << ((e) -2000))
#define B_EFAULT (UINT64_C(1) << 62)
#define B_EINVAL (UINT64_C(1) << 63)
#define V(cond, e)                                                                                 \
        do {                                                                                       \
                if (cond)                                                                          \
                        m |= (e);                                                                  \
        } while (0)

static int
is_aes_key(uint64_t k)
{
        return k == 16 || k == 24 || k == 32;
}

/* two tag lengths allowed for the truncated-HMAC family; one for the rest */
static int
tag_ok_hmac(IMB_HASH_ALG h, uint64_t t)
{
        switch (h) {
        case IMB_AUTH_HMAC_SHA_1:
                return t == 12 || t == 20;
        case IMB_AUTH_HMAC_SHA_224:
                return t == 14 || t == 28;
        case IMB_AUTH_HMAC_SHA_256:
                return t == 16 || t == 32;
        case IMB_AUTH_HMAC_SHA_384:
                return t == 24 || t == 48;
        case IMB_AUTH_HMAC_SHA_512:
                return t == 32 || t == 64;
        case IMB_AUTH_MD5:
                return t == 12 || t == 16;
        default:
                return 0;
        }
}

static uint64_t
sgl_total(const IMB_JOB *j, uint64_t *m_out)
{
        uint64_t m = 0, tot = 0;
        for (uint64_t i = 0; i < j->num_sgl_io_segs && i < 2; i++) {
                const struct IMB_SGL_IOV *s = &j->sgl_io_segs[i];
                V(s->len != 0 && s->in == NULL, B(IMB_ERR_JOB_NULL_SRC));
                V(s->len != 0 && s->out == NULL, B(IMB_ERR_JOB_NULL_DST));
                tot += s->len;
        }
        *m_out |= m;
        return tot;
}

static uint64_t
spec(const IMB_JOB *j)
{
        uint64_t m = 0;
        const IMB_CIPHER_MODE c = j->cipher_mode;
        const IMB_HASH_ALG h = j->hash_alg;
        const IMB_CIPHER_DIRECTION d = j->cipher_direction;
        const uint64_t k = j->key_len_in_bytes;
        const uint64_t cl = j->msg_len_to_cipher_in_bytes;
        const uint64_t hl = j->msg_len_to_hash_in_bytes;
        const uint64_t GCM_MAX = ((UINT64_C(1) << 39) - 256) / 8 - 1;
        const uint64_t CP_MAX = (UINT64_C(1) << 38) - 64;
        const int enc = d == IMB_DIR_ENCRYPT, dec = d == IMB_DIR_DECRYPT;

        V(!enc && !dec && c != IMB_CIPHER_NULL, B(IMB_ERR_JOB_CIPH_DIR));

        /* key pointer of the direction in use */
#define DIRKEY() V((enc && j->enc_keys == NULL) || (dec && j->dec_keys == NULL), B(IMB_ERR_JOB_NULL_KEY))
#define SRCDST()                                                                                   \
        do {                                                                                       \
                V(j->src == NULL, B(IMB_ERR_JOB_NULL_SRC));                                        \
                V(j->dst == NULL, B(IMB_ERR_JOB_NULL_DST));                                        \
        } while (0)
#define SRCDST_IF_LEN()                                                                            \
        do {                                                                                       \
                V(cl != 0 && j->src == NULL, B(IMB_ERR_JOB_NULL_SRC));                             \
                V(cl != 0 && j->dst == NULL, B(IMB_ERR_JOB_NULL_DST));                             \
        } while (0)
#define IVP() V(j->iv == NULL, B(IMB_ERR_JOB_NULL_IV))

        switch (c) {
        case IMB_CIPHER_CBC:
        case IMB_CIPHER_CBCS_1_9:
                SRCDST();
                IVP();
                DIRKEY();
                V(!is_aes_key(k), B(IMB_ERR_JOB_KEY_LEN));
                V(cl == 0 || (cl & 15), B(IMB_ERR_JOB_CIPH_LEN));
                if (c == IMB_CIPHER_CBCS_1_9) {
                        V(cl > (UINT64_C(1) << 60) - 1, B(IMB_ERR_JOB_CIPH_LEN));
                        V(j->cipher_fields.CBCS.next_iv == NULL, B(IMB_ERR_JOB_NULL_NEXT_IV));
                } else
                        V(enc && cl > 65534, B(IMB_ERR_JOB_CIPH_LEN)); /* multi-buffer 16-bit lengths */
                V(j->iv_len_in_bytes != 16, B(IMB_ERR_JOB_IV_LEN));
                break;
        case IMB_CIPHER_ECB:
                SRCDST();
                DIRKEY();
                V(!is_aes_key(k), B(IMB_ERR_JOB_KEY_LEN));
                V(cl == 0 || cl > 65534 || (cl & 15), B(IMB_ERR_JOB_CIPH_LEN));
                break;
        case IMB_CIPHER_CNTR:
        case IMB_CIPHER_CNTR_BITLEN:
                SRCDST();
                IVP();
                V(j->enc_keys == NULL, B(IMB_ERR_JOB_NULL_KEY));
                V(!is_aes_key(k), B(IMB_ERR_JOB_KEY_LEN));
                if (c == IMB_CIPHER_CNTR)
                        V(j->iv_len_in_bytes != 16 && j->iv_len_in_bytes != 12, B(IMB_ERR_JOB_IV_LEN));
                else
                        V(j->iv_len_in_bytes != 16, B(IMB_ERR_JOB_IV_LEN));
                V(cl == 0, B(IMB_ERR_JOB_CIPH_LEN));
                break;
        case IMB_CIPHER_NULL:
                break;
        case IMB_CIPHER_DOCSIS_SEC_BPI:
                SRCDST();
                IVP();
                V(j->enc_keys == NULL, B(IMB_ERR_JOB_NULL_KEY));
                V(dec && j->dec_keys == NULL, B(IMB_ERR_JOB_NULL_KEY));
                V(k != 16 && k != 32, B(IMB_ERR_JOB_KEY_LEN));
                V(j->iv_len_in_bytes != 16, B(IMB_ERR_JOB_IV_LEN));
                V(cl > 65534, B(IMB_ERR_JOB_CIPH_LEN));
                break;
        case IMB_CIPHER_GCM:
                V(cl > GCM_MAX, B(IMB_ERR_JOB_CIPH_LEN));
                SRCDST_IF_LEN();
                IVP();
                DIRKEY();
                V(!is_aes_key(k), B(IMB_ERR_JOB_KEY_LEN));
                V(j->iv_len_in_bytes == 0, B(IMB_ERR_JOB_IV_LEN));
                V(h != IMB_AUTH_AES_GMAC, B(IMB_ERR_HASH_ALGO));
                break;
        case IMB_CIPHER_GCM_SGL:
                V(h != IMB_AUTH_GCM_SGL, B(IMB_ERR_HASH_ALGO));
                DIRKEY();
                V(!is_aes_key(k), B(IMB_ERR_JOB_KEY_LEN));
                IVP();
                V(j->iv_len_in_bytes == 0, B(IMB_ERR_JOB_IV_LEN));
                switch (j->sgl_state) {
                case IMB_SGL_INIT:
                case IMB_SGL_UPDATE:
                case IMB_SGL_COMPLETE:
                        V(cl > GCM_MAX, B(IMB_ERR_JOB_CIPH_LEN));
                        SRCDST_IF_LEN();
                        break;
                case IMB_SGL_ALL:
                        V(sgl_total(j, &m) > GCM_MAX, B(IMB_ERR_JOB_CIPH_LEN));
                        break;
                default:
                        m |= B(IMB_ERR_JOB_SGL_STATE);
                }
                break;
        case IMB_CIPHER_SM4_GCM:
                V(cl > GCM_MAX, B(IMB_ERR_JOB_CIPH_LEN));
                SRCDST_IF_LEN();
                IVP();
                V(j->iv_len_in_bytes != 12, B(IMB_ERR_JOB_IV_LEN));
                DIRKEY();
                V(k != 16, B(IMB_ERR_JOB_KEY_LEN));
                V(h != IMB_AUTH_SM4_GCM, B(IMB_ERR_HASH_ALGO));
                break;
        case IMB_CIPHER_CUSTOM:
                V(j->cipher_func == NULL, B_EFAULT);
                break;
        case IMB_CIPHER_DES:
        case IMB_CIPHER_DOCSIS_DES:
                SRCDST();
                IVP();
                DIRKEY();
                V(k != 8, B(IMB_ERR_JOB_KEY_LEN));
                V(cl == 0 || cl > 65534, B(IMB_ERR_JOB_CIPH_LEN));
                if (c == IMB_CIPHER_DES)
                        V(cl & 7, B(IMB_ERR_JOB_CIPH_LEN));
                V(j->iv_len_in_bytes != 8, B(IMB_ERR_JOB_IV_LEN));
                break;
        case IMB_CIPHER_CCM:
                SRCDST_IF_LEN();
                V(cl > 65534, B(IMB_ERR_JOB_CIPH_LEN));
                IVP();
                V(j->enc_keys == NULL, B(IMB_ERR_JOB_NULL_KEY));
                V(k != 16 && k != 32, B(IMB_ERR_JOB_KEY_LEN));
                V(j->iv_len_in_bytes > 13 || j->iv_len_in_bytes < 7, B(IMB_ERR_JOB_IV_LEN)); /* RFC 3610: L = 2..8 */
                V(h != IMB_AUTH_AES_CCM, B(IMB_ERR_HASH_ALGO));
                break;
        case IMB_CIPHER_DES3: {
                SRCDST();
                IVP();
                V(k != 24, B(IMB_ERR_JOB_KEY_LEN));
                V(cl == 0 || cl > 65534 || (cl & 7), B(IMB_ERR_JOB_CIPH_LEN));
                V(j->iv_len_in_bytes != 8, B(IMB_ERR_JOB_IV_LEN));
                const void *const *ks = (const void *const *) (enc ? j->enc_keys : j->dec_keys);
                if (enc || dec) {
                        if (ks == NULL)
                                m |= B(IMB_ERR_JOB_NULL_KEY);
                        else
                                V(ks[0] == NULL || ks[1] == NULL || ks[2] == NULL, B(IMB_ERR_JOB_NULL_KEY));
                }
                break;
        }
        case IMB_CIPHER_PON_AES_CNTR:
                SRCDST();
                V(j->src != NULL && j->dst != NULL && (j->src + j->cipher_start_src_offset_in_bytes) != j->dst, B_EINVAL);
                V(h != IMB_AUTH_PON_CRC_BIP, B(IMB_ERR_HASH_ALGO));
                if (cl != 0) {
                        V(cl & 3, B(IMB_ERR_JOB_CIPH_LEN));
                        V(cl > 16384, B(IMB_ERR_JOB_CIPH_LEN)); /* 2^14 + 8 - 8 */
                        V(k != 16, B(IMB_ERR_JOB_KEY_LEN));
                        V(j->iv_len_in_bytes != 16, B(IMB_ERR_JOB_IV_LEN));
                        IVP();
                        V(j->enc_keys == NULL, B(IMB_ERR_JOB_NULL_KEY));
                }
                if (cl >= 4 && j->src != NULL) {
                        const uint8_t *p = j->src + j->hash_start_src_offset_in_bytes;
                        const unsigned pli = ((unsigned) p[0] << 6) | (p[1] >> 2); /* 14 MS bits of the XGEM header */
                        V(pli > 4 && (uint64_t) (pli - 4) > cl - 4, B(IMB_ERR_JOB_PON_PLI));
                }
                break;
        case IMB_CIPHER_ZUC_EEA3:
                SRCDST();
                IVP();
                V(j->enc_keys == NULL, B(IMB_ERR_JOB_NULL_KEY));
                V(k != 16 && k != 32, B(IMB_ERR_JOB_KEY_LEN));
                V(cl == 0 || cl > 8188, B(IMB_ERR_JOB_CIPH_LEN)); /* 65504 bits */
                if (k == 16)
                        V(j->iv_len_in_bytes != 16, B(IMB_ERR_JOB_IV_LEN));
                else if (k == 32)
                        V(j->iv_len_in_bytes != 23 && j->iv_len_in_bytes != 25, B(IMB_ERR_JOB_IV_LEN));
                break;
        case IMB_CIPHER_SNOW3G_UEA2_BITLEN:
                SRCDST();
                IVP();
                V(j->enc_keys == NULL, B(IMB_ERR_JOB_NULL_KEY));
                V(k != 16, B(IMB_ERR_JOB_KEY_LEN));
                V(cl == 0 || cl > 0xffffffffULL, B(IMB_ERR_JOB_CIPH_LEN));
                V(j->iv_len_in_bytes != 16, B(IMB_ERR_JOB_IV_LEN));
                break;
        case IMB_CIPHER_KASUMI_UEA1_BITLEN:
                SRCDST();
                IVP();
                V(j->enc_keys == NULL, B(IMB_ERR_JOB_NULL_KEY));
                V(k != 16, B(IMB_ERR_JOB_KEY_LEN));
                V(cl == 0 || cl > 20000, B(IMB_ERR_JOB_CIPH_LEN));
                V(j->iv_len_in_bytes != 8, B(IMB_ERR_JOB_IV_LEN));
                break;
        case IMB_CIPHER_CHACHA20:
                SRCDST();
                IVP();
                V(j->enc_keys == NULL, B(IMB_ERR_JOB_NULL_KEY));
                V(k != 32, B(IMB_ERR_JOB_KEY_LEN));
                V(cl == 0 || cl > CP_MAX, B(IMB_ERR_JOB_CIPH_LEN));
                V(j->iv_len_in_bytes != 12, B(IMB_ERR_JOB_IV_LEN));
                break;
        case IMB_CIPHER_CHACHA20_POLY1305:
                SRCDST_IF_LEN();
                IVP();
                V(j->enc_keys == NULL, B(IMB_ERR_JOB_NULL_KEY));
                V(k != 32, B(IMB_ERR_JOB_KEY_LEN));
                V(cl > CP_MAX, B(IMB_ERR_JOB_CIPH_LEN));
                V(j->iv_len_in_bytes != 12, B(IMB_ERR_JOB_IV_LEN));
                V(h != IMB_AUTH_CHACHA20_POLY1305, B(IMB_ERR_HASH_ALGO)); /* AEAD pairing */
                break;
        case IMB_CIPHER_CHACHA20_POLY1305_SGL:
                IVP();
                V(j->iv_len_in_bytes != 12, B(IMB_ERR_JOB_IV_LEN));
                V(j->enc_keys == NULL, B(IMB_ERR_JOB_NULL_KEY));
                V(k != 32, B(IMB_ERR_JOB_KEY_LEN));
                switch (j->sgl_state) {
                case IMB_SGL_INIT:
                case IMB_SGL_UPDATE:
                case IMB_SGL_COMPLETE:
                        V(cl > CP_MAX, B(IMB_ERR_JOB_CIPH_LEN));
                        SRCDST_IF_LEN();
                        break;
                case IMB_SGL_ALL:
                        V(sgl_total(j, &m) > CP_MAX, B(IMB_ERR_JOB_CIPH_LEN));
                        break;
                default:
                        m |= B(IMB_ERR_JOB_SGL_STATE);
                }
                V(h != IMB_AUTH_CHACHA20_POLY1305_SGL, B(IMB_ERR_HASH_ALGO)); /* AEAD pairing */
                break;
        case IMB_CIPHER_SNOW_V_AEAD:
        case IMB_CIPHER_SNOW_V:
                SRCDST_IF_LEN();
                IVP();
                V(j->enc_keys == NULL, B(IMB_ERR_JOB_NULL_KEY));
                V(k != 32, B(IMB_ERR_JOB_KEY_LEN));
                V(j->iv_len_in_bytes != 16, B(IMB_ERR_JOB_IV_LEN));
                V(c == IMB_CIPHER_SNOW_V_AEAD && h != IMB_AUTH_SNOW_V_AEAD, B(IMB_ERR_HASH_ALGO));
                break;
        case IMB_CIPHER_SM4_CNTR:
                SRCDST();
                IVP();
                V(j->enc_keys == NULL, B(IMB_ERR_JOB_NULL_KEY));
                V(k != 16, B(IMB_ERR_JOB_KEY_LEN));
                V(j->iv_len_in_bytes != 16 && j->iv_len_in_bytes != 12, B(IMB_ERR_JOB_IV_LEN));
                V(cl == 0, B(IMB_ERR_JOB_CIPH_LEN));
                break;
        case IMB_CIPHER_SM4_CBC:
                V(j->iv_len_in_bytes != 16, B(IMB_ERR_JOB_IV_LEN));
                IVP();
                V(cl > 65534, B(IMB_ERR_JOB_CIPH_LEN));
                /* fall through */
        case IMB_CIPHER_SM4_ECB:
                SRCDST();
                DIRKEY();
                V(cl == 0 || (cl & 15), B(IMB_ERR_JOB_CIPH_LEN));
                break;
        case IMB_CIPHER_CFB:
                SRCDST_IF_LEN();
                IVP();
                DIRKEY();
                V(!is_aes_key(k), B(IMB_ERR_JOB_KEY_LEN));
                V(j->iv_len_in_bytes != 16, B(IMB_ERR_JOB_IV_LEN));
                V(cl & 15, B(IMB_ERR_JOB_CIPH_LEN));
                break;
        default:
                m |= B(IMB_ERR_CIPH_MODE);
        }

        const uint64_t t = j->auth_tag_output_len_in_bytes;
#define TAGP() V(j->auth_tag_output == NULL, B(IMB_ERR_JOB_NULL_AUTH))
        switch (h) {
        case IMB_AUTH_HMAC_SHA_1:
        case IMB_AUTH_MD5:
        case IMB_AUTH_HMAC_SHA_224:
        case IMB_AUTH_HMAC_SHA_256:
        case IMB_AUTH_HMAC_SHA_384:
        case IMB_AUTH_HMAC_SHA_512:
                V(j->src == NULL, B(IMB_ERR_JOB_NULL_SRC));
                V(!tag_ok_hmac(h, t), B(IMB_ERR_JOB_AUTH_TAG_LEN));
                V(hl == 0 || hl > 65534, B(IMB_ERR_JOB_AUTH_LEN));
                TAGP();
                V(j->u.HMAC._hashed_auth_key_xor_ipad == NULL, B(IMB_ERR_JOB_NULL_HMAC_IPAD));
                V(j->u.HMAC._hashed_auth_key_xor_opad == NULL, B(IMB_ERR_JOB_NULL_HMAC_OPAD));
                break;
        case IMB_AUTH_AES_XCBC:
                V(j->src == NULL, B(IMB_ERR_JOB_NULL_SRC));
                V(t != 12, B(IMB_ERR_JOB_AUTH_TAG_LEN));
                TAGP();
                V(hl > 65534, B(IMB_ERR_JOB_AUTH_LEN));
                V(j->u.XCBC._k1_expanded == NULL, B(IMB_ERR_JOB_NULL_XCBC_K1_EXP));
                V(j->u.XCBC._k2 == NULL, B(IMB_ERR_JOB_NULL_XCBC_K2));
                V(j->u.XCBC._k3 == NULL, B(IMB_ERR_JOB_NULL_XCBC_K3));
                break;
        case IMB_AUTH_NULL:
                break;
        case IMB_AUTH_CRC32_ETHERNET_FCS:
        case IMB_AUTH_CRC32_SCTP:
        case IMB_AUTH_CRC32_WIMAX_OFDMA_DATA:
        case IMB_AUTH_CRC24_LTE_A:
        case IMB_AUTH_CRC24_LTE_B:
        case IMB_AUTH_CRC16_X25:
        case IMB_AUTH_CRC16_FP_DATA:
        case IMB_AUTH_CRC11_FP_HEADER:
        case IMB_AUTH_CRC10_IUUP_DATA:
        case IMB_AUTH_CRC8_WIMAX_OFDMA_HCS:
        case IMB_AUTH_CRC7_FP_HEADER:
        case IMB_AUTH_CRC6_IUUP_HEADER:
                V(j->src == NULL && hl != 0, B(IMB_ERR_JOB_NULL_SRC));
                TAGP();
                V(t != 4, B(IMB_ERR_JOB_AUTH_TAG_LEN));
                break;
        case IMB_AUTH_AES_GMAC:
                V(t < 1 || t > 16, B(IMB_ERR_JOB_AUTH_TAG_LEN));
                V(j->u.GCM.aad_len_in_bytes > 0 && j->u.GCM.aad == NULL, B(IMB_ERR_JOB_NULL_AAD));
                V(c != IMB_CIPHER_GCM, B(IMB_ERR_CIPH_MODE));
                TAGP();
                break;
        case IMB_AUTH_GCM_SGL:
                V(c != IMB_CIPHER_GCM_SGL, B(IMB_ERR_CIPH_MODE));
                V(j->u.GCM.ctx == NULL, B(IMB_ERR_JOB_NULL_SGL_CTX));
                if (j->sgl_state == IMB_SGL_COMPLETE || j->sgl_state == IMB_SGL_ALL) {
                        V(t < 1 || t > 16, B(IMB_ERR_JOB_AUTH_TAG_LEN));
                        TAGP();
                }
                if (j->sgl_state == IMB_SGL_INIT || j->sgl_state == IMB_SGL_ALL)
                        V(j->u.GCM.aad_len_in_bytes > 0 && j->u.GCM.aad == NULL, B(IMB_ERR_JOB_NULL_AAD));
                break;
        case IMB_AUTH_AES_GMAC_128:
        case IMB_AUTH_AES_GMAC_192:
        case IMB_AUTH_AES_GMAC_256:
                V(t < 1 || t > 16, B(IMB_ERR_JOB_AUTH_TAG_LEN));
                TAGP();
                V(c == IMB_CIPHER_GCM, B(IMB_ERR_CIPH_MODE));
                V(j->u.GMAC._key == NULL, B(IMB_ERR_JOB_NULL_AUTH_KEY));
                V(j->u.GMAC._iv == NULL, B(IMB_ERR_JOB_NULL_IV));
                V(j->u.GMAC.iv_len_in_bytes == 0, B(IMB_ERR_JOB_IV_LEN));
                V(hl != 0 && j->src == NULL, B(IMB_ERR_JOB_NULL_SRC));
                break;
        case IMB_AUTH_GHASH:
                V(t < 1 || t > 16, B(IMB_ERR_JOB_AUTH_TAG_LEN));
                TAGP();
                V(j->u.GHASH._key == NULL, B(IMB_ERR_JOB_NULL_AUTH_KEY));
                V(j->u.GHASH._init_tag == NULL, B(IMB_ERR_JOB_NULL_GHASH_INIT_TAG));
                V(hl != 0 && j->src == NULL, B(IMB_ERR_JOB_NULL_SRC));
                break;
        case IMB_AUTH_CUSTOM:
                V(j->hash_func == NULL, B_EFAULT);
                break;
        case IMB_AUTH_AES_CCM:
                V(hl != 0 && j->src == NULL, B(IMB_ERR_JOB_NULL_SRC));
                V(j->u.CCM.aad_len_in_bytes > 46, B(IMB_ERR_JOB_AAD_LEN));
                V(j->u.CCM.aad_len_in_bytes > 0 && j->u.CCM.aad == NULL, B(IMB_ERR_JOB_NULL_AAD));
                V(t < 4 || t > 16 || (t & 1), B(IMB_ERR_JOB_AUTH_TAG_LEN));
                V(c != IMB_CIPHER_CCM, B(IMB_ERR_CIPH_MODE));
                V(hl > 65534, B(IMB_ERR_JOB_AUTH_LEN));
                V(cl != hl, B(IMB_ERR_JOB_CIPH_LEN));
                V(j->cipher_start_src_offset_in_bytes != j->hash_start_src_offset_in_bytes, B(IMB_ERR_JOB_SRC_OFFSET));
                TAGP();
                break;
        case IMB_AUTH_AES_CMAC:
        case IMB_AUTH_AES_CMAC_BITLEN:
        case IMB_AUTH_AES_CMAC_256:
                V(j->src == NULL, B(IMB_ERR_JOB_NULL_SRC));
                V(j->u.CMAC._key_expanded == NULL || j->u.CMAC._skey1 == NULL || j->u.CMAC._skey2 == NULL,
                  B(IMB_ERR_JOB_NULL_KEY));
                V(t < 1 || t > 16, B(IMB_ERR_JOB_AUTH_TAG_LEN));
                TAGP();
                if (h == IMB_AUTH_AES_CMAC_BITLEN)
                        V(hl > 65534 * 8, B(IMB_ERR_JOB_AUTH_LEN));
                else
                        V(hl > 65534, B(IMB_ERR_JOB_AUTH_LEN));
                break;
        case IMB_AUTH_SHA_1:
        case IMB_AUTH_SHA_224:
        case IMB_AUTH_SHA_256:
        case IMB_AUTH_SHA_384:
        case IMB_AUTH_SHA_512:
                V(t != (h == IMB_AUTH_SHA_1     ? 20
                        : h == IMB_AUTH_SHA_224 ? 28
                        : h == IMB_AUTH_SHA_256 ? 32
                        : h == IMB_AUTH_SHA_384 ? 48
                                                : 64),
                  B(IMB_ERR_JOB_AUTH_TAG_LEN));
                V(j->src == NULL, B(IMB_ERR_JOB_NULL_SRC));
                TAGP();
                V(hl > 65534, B(IMB_ERR_JOB_AUTH_LEN));
                break;
        case IMB_AUTH_PON_CRC_BIP:
                V((hl & 3) || hl < 8 || hl > 16392, B(IMB_ERR_JOB_AUTH_LEN));
                V(t != 8, B(IMB_ERR_JOB_AUTH_TAG_LEN));
                V(c != IMB_CIPHER_PON_AES_CNTR, B(IMB_ERR_CIPH_MODE));
                TAGP();
                break;
        case IMB_AUTH_ZUC_EIA3_BITLEN:
        case IMB_AUTH_ZUC256_EIA3_BITLEN:
                V(j->src == NULL, B(IMB_ERR_JOB_NULL_SRC));
                V(hl < 1 || hl > 65504, B(IMB_ERR_JOB_AUTH_LEN));
                V(j->u.ZUC_EIA3._key == NULL, B(IMB_ERR_JOB_NULL_KEY));
                if (h == IMB_AUTH_ZUC_EIA3_BITLEN) {
                        V(j->u.ZUC_EIA3._iv == NULL, B(IMB_ERR_JOB_NULL_IV));
                        V(t != 4, B(IMB_ERR_JOB_AUTH_TAG_LEN));
                } else {
                        V(j->u.ZUC_EIA3._iv == NULL && j->u.ZUC_EIA3._iv23 == NULL, B(IMB_ERR_JOB_NULL_IV));
                        V(t != 4 && t != 8 && t != 16, B(IMB_ERR_JOB_AUTH_TAG_LEN));
                }
                TAGP();
                break;
        case IMB_AUTH_DOCSIS_CRC32:
                V(c != IMB_CIPHER_DOCSIS_SEC_BPI, B(IMB_ERR_CIPH_MODE));
                if (cl && hl) {
                        V(cl + 8 > hl, B(IMB_ERR_JOB_CIPH_LEN)); /* cipher_len <= hash_len - 12 + 4 */
                        V(j->cipher_start_src_offset_in_bytes < j->hash_start_src_offset_in_bytes + 12,
                          B(IMB_ERR_JOB_SRC_OFFSET));
                }
                V(hl > 65534, B(IMB_ERR_JOB_AUTH_LEN));
                TAGP();
                V(t != 4, B(IMB_ERR_JOB_AUTH_TAG_LEN));
                V((enc && j->chain_order != IMB_ORDER_HASH_CIPHER) || (dec && j->chain_order != IMB_ORDER_CIPHER_HASH),
                  B(IMB_ERR_JOB_CHAIN_ORDER));
                break;
        case IMB_AUTH_SNOW3G_UIA2_BITLEN:
                V(j->src == NULL, B(IMB_ERR_JOB_NULL_SRC));
                V(hl == 0 || hl > 0xffffffffULL, B(IMB_ERR_JOB_AUTH_LEN));
                V(j->u.SNOW3G_UIA2._key == NULL, B(IMB_ERR_JOB_NULL_KEY));
                V(j->u.SNOW3G_UIA2._iv == NULL, B(IMB_ERR_JOB_NULL_IV));
                V(t != 4, B(IMB_ERR_JOB_AUTH_TAG_LEN));
                TAGP();
                break;
        case IMB_AUTH_KASUMI_UIA1:
                V(j->src == NULL, B(IMB_ERR_JOB_NULL_SRC));
                V(hl < 9 || hl > 2500, B(IMB_ERR_JOB_AUTH_LEN));
                V(j->u.KASUMI_UIA1._key == NULL, B(IMB_ERR_JOB_NULL_KEY));
                V(t != 4, B(IMB_ERR_JOB_AUTH_TAG_LEN));
                TAGP();
                break;
        case IMB_AUTH_POLY1305:
                V(j->src == NULL, B(IMB_ERR_JOB_NULL_SRC));
                V(j->u.POLY1305._key == NULL, B(IMB_ERR_JOB_NULL_AUTH_KEY));
                TAGP();
                V(t != 16, B(IMB_ERR_JOB_AUTH_TAG_LEN));
                break;
        case IMB_AUTH_CHACHA20_POLY1305:
        case IMB_AUTH_CHACHA20_POLY1305_SGL:
                V(hl != 0 && j->src == NULL, B(IMB_ERR_JOB_NULL_SRC));
                V(hl != 0 && j->dst == NULL, B(IMB_ERR_JOB_NULL_DST));
                V(h == IMB_AUTH_CHACHA20_POLY1305 && c != IMB_CIPHER_CHACHA20_POLY1305, B(IMB_ERR_CIPH_MODE));
                V(h == IMB_AUTH_CHACHA20_POLY1305_SGL && c != IMB_CIPHER_CHACHA20_POLY1305_SGL, B(IMB_ERR_CIPH_MODE));
                V(j->u.CHACHA20_POLY1305.aad == NULL && j->u.CHACHA20_POLY1305.aad_len_in_bytes > 0,
                  B(IMB_ERR_JOB_NULL_AAD));
                TAGP();
                V(t != 16, B(IMB_ERR_JOB_AUTH_TAG_LEN));
                V(h == IMB_AUTH_CHACHA20_POLY1305_SGL && j->u.CHACHA20_POLY1305.ctx == NULL, B(IMB_ERR_JOB_NULL_SGL_CTX));
                break;
        case IMB_AUTH_SNOW_V_AEAD:
                V(j->u.SNOW_V_AEAD.aad_len_in_bytes > 0 && j->u.SNOW_V_AEAD.aad == NULL, B(IMB_ERR_JOB_NULL_AAD));
                TAGP();
                V(t != 16, B(IMB_ERR_JOB_AUTH_TAG_LEN));
                V(c != IMB_CIPHER_SNOW_V_AEAD, B(IMB_ERR_CIPH_MODE));
                break;
        case IMB_AUTH_HMAC_SM3:
                V(j->u.HMAC._hashed_auth_key_xor_ipad == NULL, B(IMB_ERR_JOB_NULL_HMAC_IPAD));
                V(j->u.HMAC._hashed_auth_key_xor_opad == NULL, B(IMB_ERR_JOB_NULL_HMAC_OPAD));
                V(hl == 0, B(IMB_ERR_JOB_AUTH_LEN));
                /* fall through */
        case IMB_AUTH_SM3:
                V(t == 0 || t > 32, B(IMB_ERR_JOB_AUTH_TAG_LEN));
                V(j->src == NULL, B(IMB_ERR_JOB_NULL_SRC));
                TAGP();
                break;
        case IMB_AUTH_SM4_GCM:
                V(t < 1 || t > 16, B(IMB_ERR_JOB_AUTH_TAG_LEN));
                V(j->u.GCM.aad_len_in_bytes > 0 && j->u.GCM.aad == NULL, B(IMB_ERR_JOB_NULL_AAD));
                V(c != IMB_CIPHER_SM4_GCM, B(IMB_ERR_CIPH_MODE));
                TAGP();
                break;
        default:
                m |= B(IMB_ERR_HASH_ALGO);
        }
        return m;
}

static uint64_t
errbit(int e)
{
        if (e == EFAULT)
                return B_EFAULT;
        if (e == EINVAL)
                return B_EINVAL;
        if (e > 2000 && e < 2062)
                return B(e);
        return 0;
}

static uint8_t buf[32];
static const void *ks3[3];
static struct IMB_SGL_IOV segs[2];
static uint8_t obj;

#define PTR(T) ((T) (nondet_bool() ? (void *) &obj : NULL))

#ifndef MODE_LO
#define MODE_LO 0
#define MODE_HI 1000
#endif

int
main(void)
{
        IMB_MGR *st = malloc(sizeof(IMB_MGR));
        __CPROVER_assume(st != 0);
        IMB_JOB job = nondet_job();
        /* pointers: NULL or a valid object (the validator only compares them with NULL, except below) */
        job.enc_keys = PTR(const void *);
        job.dec_keys = PTR(const void *);
        job.src = PTR(const uint8_t *);
        job.dst = PTR(uint8_t *);
        job.iv = PTR(const uint8_t *);
        job.auth_tag_output = PTR(uint8_t *);
        job.u.XCBC._k1_expanded = PTR(const uint32_t *);
        job.u.XCBC._k2 = PTR(const uint8_t *);
        job.u.XCBC._k3 = PTR(const uint8_t *);
        job.cipher_fields.CBCS.next_iv = PTR(void *);
        job.cipher_func = nondet_bool() ? (int (*)(IMB_JOB *)) abort : NULL;
        job.hash_func = nondet_bool() ? (int (*)(IMB_JOB *)) abort : NULL;
        __CPROVER_assume((unsigned) job.cipher_mode >= MODE_LO && (unsigned) job.cipher_mode <= MODE_HI);
        if (job.cipher_mode == IMB_CIPHER_DES3) {
                for (int i = 0; i < 3; i++)
                        ks3[i] = PTR(const void *);
                if (job.enc_keys)
                        job.enc_keys = ks3;
                if (job.dec_keys)
                        job.dec_keys = ks3;
        }
        if (job.cipher_mode == IMB_CIPHER_PON_AES_CNTR) {
                __CPROVER_havoc_object(buf);
                if (job.src)
                        job.src = buf;
                __CPROVER_assume(job.hash_start_src_offset_in_bytes <= 8 && job.cipher_start_src_offset_in_bytes <= 16);
                if (job.dst && nondet_bool())
                        job.dst = buf + job.cipher_start_src_offset_in_bytes;
        }
        if ((job.cipher_mode == IMB_CIPHER_GCM_SGL || job.cipher_mode == IMB_CIPHER_CHACHA20_POLY1305_SGL) &&
            job.sgl_state == IMB_SGL_ALL) {
                for (int i = 0; i < 2; i++) {
                        segs[i].in = PTR(const void *);
                        segs[i].out = PTR(void *);
                        segs[i].len = nondet_u64();
                        __CPROVER_assume(segs[i].len < (UINT64_C(1) << 62)); /* sum does not wrap (caller-side sanity) */
                }
                job.sgl_io_segs = segs;
                __CPROVER_assume(job.num_sgl_io_segs <= 2);
        }
        st->imb_errno = 0;
        /* ghost copies (named, so the counterexample trace can be turned into a native replay) */
        const uint64_t g_key_len = job.key_len_in_bytes, g_clen = job.msg_len_to_cipher_in_bytes, g_hlen = job.msg_len_to_hash_in_bytes,
                       g_coff = job.cipher_start_src_offset_in_bytes, g_hoff = job.hash_start_src_offset_in_bytes, g_ivlen = job.iv_len_in_bytes,
                       g_taglen = job.auth_tag_output_len_in_bytes;
        const unsigned g_mode = job.cipher_mode, g_dir = job.cipher_direction, g_hash = job.hash_alg, g_order = job.chain_order, g_sgl = job.sgl_state;
        const unsigned g_ptrs = (job.src != NULL) | (job.dst != NULL) << 1 | (job.iv != NULL) << 2 | (job.enc_keys != NULL) << 3 | (job.dec_keys != NULL) << 4 |
                                (job.auth_tag_output != NULL) << 5 | (job.u.XCBC._k1_expanded != NULL) << 6 | (job.u.XCBC._k2 != NULL) << 7 |
                                (job.u.XCBC._k3 != NULL) << 8 | (job.cipher_fields.CBCS.next_iv != NULL) << 9 | (job.cipher_func != NULL) << 10 |
                                (job.hash_func != NULL) << 11;
        const IMB_JOB before = job;
        const uint64_t viol = spec(&job);
        const int r = is_job_invalid(st, &job, job.cipher_mode, job.hash_alg, job.cipher_direction,
                                     job.key_len_in_bytes);
        __CPROVER_assert((r != 0) == (viol != 0), "C12(a) rejected <=> some documented constraint violated");
        if (r != 0)
                __CPROVER_assert((errbit(st->imb_errno) & viol) != 0, "C12(b) errno names a violated constraint");
        else
                __CPROVER_assert(st->imb_errno == 0, "C12(b) accepted job leaves errno untouched");
#define SAME(f) __CPROVER_assert(before.f == job.f, "C12(c) descriptor field " #f " unchanged by validation")
        SAME(enc_keys); SAME(dec_keys); SAME(key_len_in_bytes); SAME(src); SAME(dst);
        SAME(cipher_start_src_offset_in_bytes); SAME(msg_len_to_cipher_in_bytes); SAME(hash_start_src_offset_in_bytes);
        SAME(msg_len_to_hash_in_bytes); SAME(iv); SAME(iv_len_in_bytes); SAME(auth_tag_output);
        SAME(auth_tag_output_len_in_bytes); SAME(u.XCBC._k1_expanded); SAME(u.XCBC._k2); SAME(u.XCBC._k3);
        SAME(status); SAME(cipher_mode); SAME(cipher_direction); SAME(hash_alg); SAME(chain_order);
        SAME(user_data); SAME(user_data2); SAME(cipher_func); SAME(hash_func); SAME(sgl_state);
        SAME(cipher_fields.CBCS.next_iv); SAME(suite_id[0]); SAME(suite_id[1]); SAME(session_id);
#ifdef WITNESS
        __CPROVER_assert(r == 0, "WITNESS: some job is rejected (must fail)");
        __CPROVER_assert(r != 0, "WITNESS: some job is accepted (must fail)");
#endif
        return 0;
}
