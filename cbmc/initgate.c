/* C08 (second sentence) + C20 (init propagates the self-test verdict): the real
 *   lib/sse_t1/mb_mgr_sse.c, lib/avx2_t1/mb_mgr_avx2.c, lib/avx512_t1/mb_mgr_avx512.c, lib/x86_64/mb_mgr_auto.c
 * and cpu_feature_adjust() of lib/x86_64/cpu_feature.c on an ARBITRARY CPU (cpu_feature_detect() returns an arbitrary but
 * fixed word) and an arbitrary prior manager.  The nine per-variant init functions and self_test() are recording stubs.
 * -DWHICH=1 sse, 2 avx2, 3 avx512, 4 auto; 5/6/7 (C16): the internal dispatchers init_mb_mgr_{sse,avx2,avx512}_internal(state, reset_mgrs)
 * - the re-attach path calls them with reset_mgrs = 0 - hand exactly that argument to the variant they select, on any CPU. */
#include <stdint.h>
#include "intel-ipsec-mb.h"
#undef assert
#define assert(c) __CPROVER_assert((c), #c)
uint64_t nondet_u64(void);
_Bool nondet_bool(void);
int nondet_int(void);
#include "x86_64/error.c" /* real imb_get_errno/imb_set_errno */
static uint64_t G_CPU;     /* what CPUID says on this (arbitrary) machine */
static unsigned g_calls[10], g_total, g_selftest, g_selftest_after_variant;
static int g_reset_arg[10];
static int g_selftest_ret;
#define cpu_feature_detect real_cpu_feature_detect
#include "x86_64/cpu_feature.c"
#undef cpu_feature_detect
uint64_t cpu_feature_detect(void) { return G_CPU; }
void mbcpuid(const unsigned leaf, const unsigned subleaf, struct cpuid_regs *out) { (void) leaf; (void) subleaf; (void) out; }
#define V(id, name) void name(IMB_MGR *s, const int reset) { g_reset_arg[id] = reset; g_calls[id]++; g_total++; s->used_arch_type = id; }
V(1, init_mb_mgr_sse_t1_internal) V(2, init_mb_mgr_sse_t2_internal) V(3, init_mb_mgr_sse_t3_internal)
V(4, init_mb_mgr_avx2_t1_internal) V(5, init_mb_mgr_avx2_t2_internal) V(6, init_mb_mgr_avx2_t3_internal) V(7, init_mb_mgr_avx2_t4_internal)
V(8, init_mb_mgr_avx512_t1_internal) V(9, init_mb_mgr_avx512_t2_internal)
int self_test(IMB_MGR *s)
{
        g_selftest++;
        if (g_total == 1) g_selftest_after_variant++;
        imb_set_errno(s, 0); /* the self-test's own API calls reset the error code */
        g_selftest_ret = nondet_bool();
        if (g_selftest_ret) s->features |= IMB_FEATURE_SELF_TEST_PASS; else s->features &= ~IMB_FEATURE_SELF_TEST_PASS;
        return g_selftest_ret;
}
#include "sse_t1/mb_mgr_sse.c"
#include "avx2_t1/mb_mgr_avx2.c"
#include "avx512_t1/mb_mgr_avx512.c"
#include "x86_64/mb_mgr_auto.c"

/* documented requirement sets, spelled out bit by bit (README "Recommendations"/intel-ipsec-mb.h feature docs) */
#define F_SSE (IMB_FEATURE_SSE4_2 | IMB_FEATURE_CMOV | IMB_FEATURE_AESNI | IMB_FEATURE_PCLMULQDQ)
#define F_SSE_T2 (F_SSE | IMB_FEATURE_SHANI)
#define F_SSE_T3 (F_SSE_T2 | IMB_FEATURE_GFNI)
#define F_AVX2 (F_SSE | IMB_FEATURE_AVX | IMB_FEATURE_XSAVE | IMB_FEATURE_OSXSAVE | IMB_FEATURE_AVX2 | IMB_FEATURE_BMI2)
#define F_AVX2_T2 (F_AVX2 | IMB_FEATURE_SHANI | IMB_FEATURE_VAES | IMB_FEATURE_VPCLMULQDQ | IMB_FEATURE_GFNI)
#define F_AVX2_T3 (F_AVX2_T2 | IMB_FEATURE_AVX_IFMA)
#define F_AVX512 (F_AVX2 | IMB_FEATURE_AVX512F | IMB_FEATURE_AVX512DQ | IMB_FEATURE_AVX512CD | IMB_FEATURE_AVX512BW | IMB_FEATURE_AVX512VL)
#define F_AVX512_T2 (F_AVX512 | IMB_FEATURE_VAES | IMB_FEATURE_VPCLMULQDQ | IMB_FEATURE_GFNI | IMB_FEATURE_AVX512_IFMA | IMB_FEATURE_SHANI)
#define HAS(f, set) (((f) & (set)) == (set))

static int
expected_variant(uint64_t F, int arch)
{
        if (arch == 1) return !HAS(F, F_SSE) ? 0 : HAS(F, F_SSE_T3) ? 3 : HAS(F, F_SSE_T2) ? 2 : 1;
        if (arch == 2) return !HAS(F, F_AVX2) ? 0 : HAS(F, F_AVX2_T3) ? 6 : HAS(F, F_AVX2_T2) ? 5 : 4;
        return !HAS(F, F_AVX512) ? 0 : HAS(F, F_AVX512_T2) ? 9 : 8;
}

static IMB_MGR st;
int
main(void)
{
        __CPROVER_havoc_object(&st); /* arbitrary prior manager: earlier arch, stale errno, stale function pointers */
        G_CPU = nondet_u64();
        /* what alloc_mb_mgr()/imb_set_pointers_mb_mgr() stored (plus possibly stale self-test bits) */
        const uint64_t F = cpu_feature_adjust(st.flags, G_CPU);
        st.features = F | (nondet_bool() ? IMB_FEATURE_SELF_TEST | IMB_FEATURE_SELF_TEST_PASS : 0);
        /* cpu_feature_adjust clears exactly the switched-off bits */
        uint64_t expF = G_CPU;
        if (st.flags & IMB_FLAG_SHANI_OFF) expF &= ~IMB_FEATURE_SHANI;
        if (st.flags & IMB_FLAG_GFNI_OFF) expF &= ~IMB_FEATURE_GFNI;
        assert(F == expF);
        IMB_ARCH arch_out = (IMB_ARCH) 77;
        int arch = WHICH;
#if WHICH >= 5
        {
                const int r = nondet_int();
                arch = WHICH - 4;
                if (WHICH == 5) init_mb_mgr_sse_internal(&st, r);
                if (WHICH == 6) init_mb_mgr_avx2_internal(&st, r);
                if (WHICH == 7) init_mb_mgr_avx512_internal(&st, r);
                const int w = expected_variant(F, arch);
                if (g_total != 0) {
                        assert(g_total == 1);
                        for (int v = 1; v < 10; v++)
                                if (g_calls[v]) assert(g_reset_arg[v] == r); /* reset_mgrs handed through unchanged: re-attach (0) never resets a lane */
                        if (w != 0) assert(g_calls[w] == 1);
                }
                assert(g_selftest == 0);
#ifdef WITNESS
                assert(g_total == 0);
#endif
                return 0;
        }
#elif WHICH == 1
        init_mb_mgr_sse(&st);
#elif WHICH == 2
        init_mb_mgr_avx2(&st);
#elif WHICH == 3
        init_mb_mgr_avx512(&st);
#else
        init_mb_mgr_auto(&st, nondet_bool() ? &arch_out : NULL);
        arch = HAS(F, F_AVX512) ? 3 : HAS(F, F_AVX2) ? 2 : HAS(F, F_SSE) ? 1 : 0;
        if (arch_out != 77)
                assert(arch_out == (arch == 3 ? IMB_ARCH_AVX512 : arch == 2 ? IMB_ARCH_AVX2 : arch == 1 ? IMB_ARCH_SSE : IMB_ARCH_NONE));
#endif
        const int want = arch ? expected_variant(F, arch) : 0;
        if (want == 0) {
                /* required CPU features absent: clean failure, nothing executed */
                assert(g_total == 0);
                assert(g_selftest == 0);
                assert(st.imb_errno == IMB_ERR_MISSING_CPUFLAGS_INIT_MGR);
        } else {
                assert(g_total == 1 && g_calls[want] == 1);           /* exactly the documented variant */
                assert(g_selftest == 1 && g_selftest_after_variant == 1); /* every init runs the known-answer tests, after binding */
                assert(st.imb_errno == (g_selftest_ret ? 0 : IMB_ERR_SELFTEST)); /* success reported only if they passed */
                assert(((st.features & IMB_FEATURE_SELF_TEST_PASS) != 0) == (g_selftest_ret != 0));
        }
#ifdef WITNESS
        assert(want != 0);
        assert(want == 0);
#endif
        return 0;
}
