/* L1: the real stage sequencing code  submit_new_job / RESUBMIT_JOB / complete_job  (and the burst twins
 * submit_new_burst_job / RESUBMIT_BURST_JOB / complete_burst_job) from lib/include/mb_mgr_job_api.h, with the four
 * stage dispatchers replaced by contract stubs K3:
 *     submit stage : parks the job in the manager selected by the job's own algorithm field and returns NULL or ANY job
 *                    parked in that same manager after OR-ing exactly the stage bit into its status
 *     flush stage  : returns NULL iff that manager is empty, otherwise any job parked there, stage bit OR-ed in
 * Proves contract K1 (used by the ring harness) and the sequencing part of C04/C06/C14:
 *   - every stage of every job runs at most once, in chain order (GCM: cipher stage only, synchronous)
 *   - a job is either COMPLETED (status == 3 exactly) or parked in exactly one manager: nothing is lost or duplicated
 *   - submit_new_job returns NULL or a job with status == IMB_STATUS_COMPLETED
 *   - complete_job(j) terminates with j completed
 * -DMODE=1 submit_new_job, 2 complete_job, 3 submit_new_burst_job, 4 complete_burst_job
 */
#include ARCH_FILE
#include <assert.h>
#undef assert /* the repo is built with -DNDEBUG: use CBMC assertions, which NDEBUG does not remove */
#define assert(c) __CPROVER_assert((c), #c)

volatile int imb_errno;
_Bool nondet_bool(void);
unsigned nondet_uint(void);

#ifndef NJ
#define NJ 3
#endif
static IMB_MGR st;
static IMB_JOB J[NJ];
static _Bool parkC[NJ], parkH[NJ], inflight[NJ];
static unsigned ranC[NJ], ranH[NJ];
static _Bool g_bad; /* set by a stub when a sequencing rule is broken */

static int
idx(const IMB_JOB *j)
{
        for (int i = 0; i < NJ; i++)
                if (j == &J[i])
                        return i;
        assert(0); /* a job outside the universe */
        return 0;
}
/* "same out-of-order manager": jobs whose algorithm/key-size/direction select the same manager */
static int
same_c(const IMB_JOB *a, const IMB_JOB *b)
{
        return a->cipher_mode == b->cipher_mode && a->key_len_in_bytes == b->key_len_in_bytes &&
               a->cipher_direction == b->cipher_direction;
}
static int
same_h(const IMB_JOB *a, const IMB_JOB *b)
{
        return a->hash_alg == b->hash_alg;
}
static int
sync_aead(const IMB_JOB *j)
{
        return j->cipher_mode == IMB_CIPHER_GCM; /* dispatched to the cipher table only; completes both stages */
}

static IMB_JOB *
pick(_Bool *park, const IMB_JOB *job, int hash, int must)
{
        int cand = -1;
        for (int i = 0; i < NJ; i++)
                if (park[i] && (hash ? same_h(&J[i], job) : same_c(&J[i], job)) && (cand < 0 || nondet_bool()))
                        cand = i;
        if (cand < 0 || (!must && nondet_bool()))
                return NULL;
        park[cand] = 0;
        J[cand].status |= hash ? IMB_STATUS_COMPLETED_AUTH : IMB_STATUS_COMPLETED_CIPHER;
        return &J[cand];
}

IMB_JOB *
stub_submit_cipher(IMB_MGR *s, IMB_JOB *job)
{
        const int k = idx(job);
        assert(s == &st);
        if (job->status & IMB_STATUS_COMPLETED_CIPHER) g_bad = 1; /* stage already done */
        if (ranC[k]++) g_bad = 1;                                  /* stage runs exactly once */
        if (parkC[k] || parkH[k]) g_bad = 1;                       /* never in two managers */
        if (!sync_aead(job)) {
                if (job->chain_order == IMB_ORDER_CIPHER_HASH && (job->status & IMB_STATUS_COMPLETED_AUTH)) g_bad = 1;
                if (job->chain_order == IMB_ORDER_HASH_CIPHER && !(job->status & IMB_STATUS_COMPLETED_AUTH)) g_bad = 1;
        }
        if (sync_aead(job)) {
                job->status = IMB_STATUS_COMPLETED;
                return job;
        }
        parkC[k] = 1;
        return pick(parkC, job, 0, 0);
}
IMB_JOB *
stub_submit_hash(IMB_MGR *s, IMB_JOB *job)
{
        const int k = idx(job);
        assert(s == &st);
        if (sync_aead(job)) g_bad = 1; /* GCM never reaches the hash table */
        if (job->status & IMB_STATUS_COMPLETED_AUTH) g_bad = 1;
        if (ranH[k]++) g_bad = 1;
        if (parkC[k] || parkH[k]) g_bad = 1;
        if (job->chain_order == IMB_ORDER_CIPHER_HASH && !(job->status & IMB_STATUS_COMPLETED_CIPHER)) g_bad = 1;
        if (job->chain_order == IMB_ORDER_HASH_CIPHER && (job->status & IMB_STATUS_COMPLETED_CIPHER)) g_bad = 1;
        parkH[k] = 1;
        return pick(parkH, job, 1, 0);
}
IMB_JOB *
stub_flush_cipher(IMB_MGR *s, IMB_JOB *job)
{
        assert(s == &st);
        return pick(parkC, job, 0, 1);
}
IMB_JOB *
stub_flush_hash(IMB_MGR *s, IMB_JOB *job)
{
        assert(s == &st);
        return pick(parkH, job, 1, 1);
}

/* representation invariant over the universe of jobs */
static int
Inv(void)
{
        for (int i = 0; i < NJ; i++) {
                const unsigned s = (unsigned) J[i].status;
                if (s > IMB_STATUS_COMPLETED)
                        return 0;
                if (!inflight[i]) {
                        if (parkC[i] || parkH[i])
                                return 0;
                        continue;
                }
                if (parkC[i] && parkH[i])
                        return 0;
                if ((s == IMB_STATUS_COMPLETED) == (parkC[i] || parkH[i]))
                        return 0; /* completed xor parked in exactly one manager */
                if (parkC[i] && (s & IMB_STATUS_COMPLETED_CIPHER))
                        return 0;
                if (parkH[i] && (s & IMB_STATUS_COMPLETED_AUTH))
                        return 0;
                if (sync_aead(&J[i]) && s != IMB_STATUS_COMPLETED)
                        return 0;
                if (J[i].chain_order == IMB_ORDER_CIPHER_HASH) {
                        if (parkC[i] && s != 0) return 0;
                        if (parkH[i] && s != IMB_STATUS_COMPLETED_CIPHER) return 0;
                } else {
                        if (parkH[i] && s != 0) return 0;
                        if (parkC[i] && s != IMB_STATUS_COMPLETED_AUTH) return 0;
                }
        }
        return 1;
}

int
main(void)
{
        __CPROVER_havoc_object(J);
        for (int i = 0; i < NJ; i++) {
                parkC[i] = nondet_bool();
                parkH[i] = nondet_bool();
                inflight[i] = nondet_bool();
                __CPROVER_assume(J[i].chain_order == IMB_ORDER_CIPHER_HASH || J[i].chain_order == IMB_ORDER_HASH_CIPHER);
                /* stage history consistent with the status bits */
                ranC[i] = (J[i].status & IMB_STATUS_COMPLETED_CIPHER) || parkC[i];
                ranH[i] = (J[i].status & IMB_STATUS_COMPLETED_AUTH) || parkH[i];
                if (sync_aead(&J[i])) ranH[i] = 0;
        }
        __CPROVER_assume(Inv());
        unsigned done_before = 0, done_after = 0;
        for (int i = 0; i < NJ; i++)
                done_before += inflight[i] && J[i].status == IMB_STATUS_COMPLETED;
#if MODE == 1 || MODE == 3
        __CPROVER_assume(!inflight[0]);
        J[0].status = IMB_STATUS_BEING_PROCESSED;
        ranC[0] = ranH[0] = 0;
        inflight[0] = 1;
#if MODE == 1
        IMB_JOB *r = submit_new_job(&st, &J[0]);
#else
        IMB_JOB *r = submit_new_burst_job(&st, &J[0]);
#endif
        assert(!g_bad);                                                /* C06/C04: each stage once, in chain order */
        assert(Inv());                                                 /* nothing lost, nothing duplicated */
        assert(r == NULL || inflight[idx(r)]);
        assert(r == NULL || r->status == IMB_STATUS_COMPLETED);        /* K1 / C14: never a partial status */
        for (int i = 0; i < NJ; i++)
                done_after += inflight[i] && J[i].status == IMB_STATUS_COMPLETED;
        assert(done_after == done_before + (r != NULL)); /* K1: exactly the returned job became COMPLETED, nobody else */
        assert(ranC[0] + ranH[0] >= 1);                                /* the submitted job entered its first stage */
        if (!sync_aead(&J[0])) {
                if (J[0].chain_order == IMB_ORDER_CIPHER_HASH) assert(ranC[0] == 1);
                else assert(ranH[0] == 1);
        }
#else
        __CPROVER_assume(inflight[0]);
#if MODE == 2
        (void) complete_job(&st, &J[0]);
#else
        (void) complete_burst_job(&st, &J[0]);
#endif
        assert(!g_bad);
        assert(Inv());
        assert(J[0].status == IMB_STATUS_COMPLETED); /* K1: the flushed job is complete on return */
#endif
#ifdef WITNESS
        assert(0);
#endif
        return 0;
}
