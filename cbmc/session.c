/* C06/C14: imb_set_session() (real lib/x86_64/cipher_suite_id.c) + set_cipher_suite_id() of the variant file.
 * Two templates that agree on (cipher_mode, direction, key size class, hash_alg) get equal suite ids; templates that pass
 * the light validator get ids inside the tables and equal to the table index the job API computes; no caller-owned
 * session field is altered; failure leaves the job untouched and sets the error code. */
#include "sse_t1/mb_mgr_sse_t1.c"
#include "x86_64/cipher_suite_id.c"
#include <assert.h>
#undef assert
#define assert(c) __CPROVER_assert((c), #c)
volatile int imb_errno;
IMB_JOB nondet_job(void);
unsigned nondet_uint(void);
uint64_t atomic_uint64_inc(uint64_t *p) { return (*p)++; } /* contract of lib/x86_64/atomic.asm (decoded separately in C17) */
static uint32_t crc_stub(const void *p, const uint64_t n) { (void) p; (void) n; return nondet_uint(); }
static IMB_MGR st;
int
main(void)
{
        __CPROVER_havoc_object(&st);
        st.set_suite_id = SET_SUITE_ID_FN;
        st.crc32_wimax_ofdma_data = crc_stub;
        IMB_JOB a = nondet_job(), b = nondet_job();
        const IMB_JOB a0 = a;
        const uint32_t ra = imb_set_session(&st, &a);
        const int ea = st.imb_errno;
        const uint32_t rb = imb_set_session(&st, &b);
        const int eb = st.imb_errno;
        if (ea == 0 && eb == 0) {
                const int same = a.cipher_mode == b.cipher_mode && a.cipher_direction == b.cipher_direction &&
                                 a.hash_alg == b.hash_alg && a.key_len_in_bytes == b.key_len_in_bytes;
                if (same)
                        assert(a.suite_id[0] == b.suite_id[0] && a.suite_id[1] == b.suite_id[1]);
                /* ids index the dispatch tables exactly as the job API does */
                assert(a.suite_id[0] == calc_cipher_tab_index(&a) && a.suite_id[1] == (uint32_t) a.hash_alg);
                assert(a.suite_id[0] < sizeof(tab_submit_cipher) / sizeof(tab_submit_cipher[0]));
                assert(a.suite_id[1] < sizeof(tab_submit_hash) / sizeof(tab_submit_hash[0]));
                assert(tab_submit_cipher[a.suite_id[0]] != NULL && tab_flush_cipher[a.suite_id[0]] != NULL);
                assert(tab_submit_hash[a.suite_id[1]] != NULL && tab_flush_hash[a.suite_id[1]] != NULL);
                /* different cipher mode / direction never share a cipher id; different hash never share a hash id */
                if (a.cipher_mode != b.cipher_mode ||
                    (a.cipher_mode != IMB_CIPHER_NULL && a.cipher_direction != b.cipher_direction))
                        assert(a.suite_id[0] != b.suite_id[0]);
                if (a.hash_alg != b.hash_alg)
                        assert(a.suite_id[1] != b.suite_id[1]);
                assert(ra == a.session_id && rb == b.session_id);
        }
        if (ea != 0)
                assert(ra == 0);
        /* caller-owned session fields are never altered (C14) */
        assert(a.cipher_mode == a0.cipher_mode && a.cipher_direction == a0.cipher_direction && a.hash_alg == a0.hash_alg &&
               a.key_len_in_bytes == a0.key_len_in_bytes && a.enc_keys == a0.enc_keys && a.dec_keys == a0.dec_keys &&
               a.src == a0.src && a.dst == a0.dst && a.iv == a0.iv && a.user_data == a0.user_data && a.user_data2 == a0.user_data2 &&
               a.chain_order == a0.chain_order && a.status == a0.status);
        if (ea != 0)
                assert(a.suite_id[0] == a0.suite_id[0] && a.suite_id[1] == a0.suite_id[1] && a.session_id == a0.session_id);
#ifdef WITNESS
        assert(ea != 0);
        assert(ea == 0);
#endif
        return 0;
}
