/* C02 (+C04 for the C manager): the real C multi-buffer SHA manager (lib/include/sha_mb_mgr.h as instantiated by
 * lib/sse_t1/sha_mb_sse.c).  The block function is a per-lane compression over an UNINTERPRETED function that advances
 * data_ptr; a job is submitted into a manager with another, arbitrary job already parked (lane isolation), then flushed.
 * The tag must equal trunc(MD-pad(msg)) folded with the same uninterpreted compression, for the message length cfg_len
 * (one query per length; all bytes of both messages, and the other job's length, are symbolic).
 * -DSHA=1|224|256|384|512 */
#include "sse_t1/sha_mb_sse.c"
#include "x86_64/ooo_mgr_reset.c"
#include <stdlib.h>
#undef assert
#define assert(c) __CPROVER_assert((c), #c)
volatile int imb_errno;
extern const int cfg_len, cfg_olen;
unsigned char nondet_uchar(void);
unsigned long nondet_ulong(void);
#ifndef MAXLEN
#define MAXLEN 260
#endif
#if SHA == 1
#define WORD uint32_t
#define NW 5
#define ND 5
#define BS 64
#define LENB 8
#define STRIDE 16
#define LANES 4
#define MGR MB_MGR_SHA_1_OOO
#define ARGS SHA1_ARGS
#define RESET ooo_mgr_sha1_reset
#define SUBMIT submit_job_sha1_sse
#define FLUSH flush_job_sha1_sse
#define MULT call_sha1_mult_sse_from_c
#define NBT uint32_t
static const WORD IV[8] = { H0, H1, H2, H3, H4 };
#elif SHA == 224 || SHA == 256
#define WORD uint32_t
#define NW 8
#define ND (SHA == 224 ? 7 : 8)
#define BS 64
#define LENB 8
#define STRIDE 16
#define LANES 4
#define MGR MB_MGR_SHA_256_OOO
#define ARGS SHA256_ARGS
#define RESET ooo_mgr_sha256_reset
#define MULT call_sha_256_mult_sse_from_c
#define NBT uint32_t
#if SHA == 224
#define SUBMIT submit_job_sha224_sse
#define FLUSH flush_job_sha224_sse
static const WORD IV[8] = { SHA224_H0, SHA224_H1, SHA224_H2, SHA224_H3, SHA224_H4, SHA224_H5, SHA224_H6, SHA224_H7 };
#else
#define SUBMIT submit_job_sha256_sse
#define FLUSH flush_job_sha256_sse
static const WORD IV[8] = { SHA256_H0, SHA256_H1, SHA256_H2, SHA256_H3, SHA256_H4, SHA256_H5, SHA256_H6, SHA256_H7 };
#endif
#else
#define WORD uint64_t
#define NW 8
#define ND (SHA == 384 ? 6 : 8)
#define BS 128
#define LENB 16
#define STRIDE 8
#define LANES 2
#define MGR MB_MGR_SHA_512_OOO
#define ARGS SHA512_ARGS
#define RESET ooo_mgr_sha512_reset
#define MULT call_sha512_x2_sse_from_c
#define NBT uint64_t
#if SHA == 384
#define SUBMIT submit_job_sha384_sse
#define FLUSH flush_job_sha384_sse
static const WORD IV[8] = { SHA384_H0, SHA384_H1, SHA384_H2, SHA384_H3, SHA384_H4, SHA384_H5, SHA384_H6, SHA384_H7 };
#else
#define SUBMIT submit_job_sha512_sse
#define FLUSH flush_job_sha512_sse
static const WORD IV[8] = { SHA512_H0, SHA512_H1, SHA512_H2, SHA512_H3, SHA512_H4, SHA512_H5, SHA512_H6, SHA512_H7 };
#endif
#endif

/* uninterpreted compression: fold the chaining value and the block into fingerprints, then one UF per output word */
unsigned long __CPROVER_uninterpreted_fold(unsigned long acc, unsigned long w);
unsigned long __CPROVER_uninterpreted_comp(unsigned idx, unsigned long chain, unsigned long blk);
static unsigned long
blkfp(const unsigned char *p)
{
        unsigned long acc = 0;
        for (int i = 0; i < BS / 8; i++) {
                unsigned long w = 0;
                for (int j = 0; j < 8; j++)
                        w |= (unsigned long) p[8 * i + j] << (8 * j);
                acc = __CPROVER_uninterpreted_fold(acc, w);
        }
        return acc;
}
static unsigned long
chainfp(const WORD h[NW])
{
        unsigned long a = 0;
        for (int i = 0; i < NW; i++)
                a = __CPROVER_uninterpreted_fold(a, (unsigned long) h[i]);
        return a;
}
static void
comp(WORD h[NW], const unsigned char *blk)
{
        const unsigned long c = chainfp(h), b = blkfp(blk);
        for (unsigned i = 0; i < NW; i++)
                h[i] = (WORD) __CPROVER_uninterpreted_comp(i, c, b);
}
/* the kernel contract: process nblk blocks of EVERY lane from data_ptr[lane], advance the pointers */
void
MULT(ARGS *args, NBT nblk)
{
        for (NBT n = 0; n < nblk; n++)
                for (int lane = 0; lane < LANES; lane++) {
                        WORD h[NW];
                        for (int i = 0; i < NW; i++)
                                h[i] = args->digest[lane + STRIDE * i];
                        comp(h, args->data_ptr[lane]);
                        for (int i = 0; i < NW; i++)
                                args->digest[lane + STRIDE * i] = h[i];
                        args->data_ptr[lane] += BS;
                }
}

static MGR st;
static IMB_JOB job, other;
static unsigned char msg[MAXLEN + 1], omsg[MAXLEN + 1], tag[64], otag[64];

int
main(void)
{
        RESET(&st, LANES);
        const unsigned long len = (unsigned long) cfg_len;
        __CPROVER_assume(len <= MAXLEN);
        for (int i = 0; i < MAXLEN; i++) {
                msg[i] = nondet_uchar();
                omsg[i] = nondet_uchar();
        }
#ifdef TWOJOBS
        /* another job already parked in the manager: arbitrary content (lane isolation, C04); its length is a second case split */
        unsigned long olen = (unsigned long) cfg_olen;
        __CPROVER_assume(olen <= 2 * BS);
        other.src = omsg; other.hash_start_src_offset_in_bytes = 0; other.msg_len_to_hash_in_bytes = olen; other.auth_tag_output = otag;
        other.auth_tag_output_len_in_bytes = ND * sizeof(WORD); other.status = IMB_STATUS_BEING_PROCESSED;
        IMB_JOB *r0 = SUBMIT(&st, &other);
        assert(r0 == NULL);
#endif
        job.src = msg; job.hash_start_src_offset_in_bytes = 0; job.msg_len_to_hash_in_bytes = len; job.auth_tag_output = tag;
        job.auth_tag_output_len_in_bytes = ND * sizeof(WORD); job.status = IMB_STATUS_BEING_PROCESSED;
        IMB_JOB *r = SUBMIT(&st, &job);
        assert(r == NULL); /* the manager is not full: the job parks */
#ifdef TWOJOBS
        IMB_JOB *f1 = FLUSH(&st, &job);
        IMB_JOB *f2 = FLUSH(&st, &job);
        assert(f1 != NULL && f2 != NULL && f1 != f2);
        assert((f1 == &job) != (f2 == &job));
        assert(other.status == IMB_STATUS_COMPLETED_AUTH);
#else
        IMB_JOB *f1 = FLUSH(&st, &job);
        assert(f1 == &job);
#endif
        assert(FLUSH(&st, &job) == NULL);
        assert(job.status == IMB_STATUS_COMPLETED_AUTH);
        /* reference: Merkle-Damgard padding + the same uninterpreted compression */
        unsigned char pad[MAXLEN + 1 + 2 * BS];
        const unsigned long total = ((len + LENB) / BS + 1) * BS;
        for (unsigned long i = 0; i < sizeof(pad); i++)
                pad[i] = i < len ? msg[i] : (i == len ? 0x80 : 0);
        const unsigned long bits = len * 8;
        for (int i = 0; i < 8; i++)
                pad[total - 1 - i] = (unsigned char) (bits >> (8 * i));
        WORD h[NW];
        for (int i = 0; i < NW; i++)
                h[i] = IV[i];
        for (unsigned long o = 0; o < total; o += BS)
                comp(h, pad + o);
        for (int i = 0; i < ND; i++) {
                WORD w = 0;
                for (unsigned b = 0; b < sizeof(WORD); b++)
                        w = (WORD) (w << 8) | tag[sizeof(WORD) * i + b];
                assert(w == h[i]); /* big-endian digest words, leading ND words */
        }
#ifdef WITNESS
        assert(0);
#endif
        return 0;
}
