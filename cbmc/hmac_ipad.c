/* C11: imb_hmac_ipad_opad() (real lib/x86_64/hmac_ipad_opad.c) for ONE algorithm (cfg_alg) and EVERY key length 0..2 blocks+1:
 * key no longer than a block is used as is (zero padded), a longer key is hashed first (HMAC-MD5: refused with IMB_ERR_KEY_LEN),
 * ipad/opad blocks are (key ^ 0x36..) / (key ^ 0x5c..) of exactly one block handed to the one-block hash of the SAME algorithm,
 * NULL ipad/opad pointers are skipped, the error code is reported on the manager, key bytes are read only within key_len.
 * The hash primitives are recording stubs (what they compute is C02). */
#include <string.h>
#include <stdint.h>
#include "intel-ipsec-mb.h"
#undef assert
#define assert(c) __CPROVER_assert((c), #c)
#define MAXK 260
extern const int cfg_alg;
size_t nondet_size(void);
_Bool nondet_bool(void);
unsigned char nondet_uchar(void);
volatile int imb_errno;
static IMB_MGR mgr;
static uint8_t keybuf[MAXK];
static size_t g_key_len;
/* recording stubs */
static int n_full, n_one;
static int full_alg, one_alg[2];
static const void *one_out[2];
static uint8_t one_blk[2][128];
static uint8_t digest_tag;      /* digest bytes produced by the "hash long key first" step */
static void rec_full(int alg, const void *p, uint64_t n, void *out, unsigned dlen)
{
        assert(p == keybuf && n == g_key_len);   /* the whole key, nothing else */
        n_full++; full_alg = alg;
        for (unsigned i = 0; i < dlen; i++) ((uint8_t *) out)[i] = (uint8_t) (digest_tag + i);
}
static void rec_one(int alg, const void *blk, void *out, unsigned bs)
{
        assert(n_one < 2);
        one_alg[n_one] = alg; one_out[n_one] = out;
        for (unsigned i = 0; i < bs; i++) one_blk[n_one][i] = ((const uint8_t *) blk)[i];
        n_one++;
}
#define FULL(name, alg, dl) static void name(const void *p, const uint64_t n, void *o) { rec_full(alg, p, n, o, dl); }
#define ONE(name, alg, bs) static void name(const void *b, void *o) { rec_one(alg, b, o, bs); }
FULL(f_sha1, IMB_AUTH_HMAC_SHA_1, 20) FULL(f_sha224, IMB_AUTH_HMAC_SHA_224, 28) FULL(f_sha256, IMB_AUTH_HMAC_SHA_256, 32)
FULL(f_sha384, IMB_AUTH_HMAC_SHA_384, 48) FULL(f_sha512, IMB_AUTH_HMAC_SHA_512, 64)
ONE(o_sha1, IMB_AUTH_HMAC_SHA_1, 64) ONE(o_sha224, IMB_AUTH_HMAC_SHA_224, 64) ONE(o_sha256, IMB_AUTH_HMAC_SHA_256, 64)
ONE(o_sha384, IMB_AUTH_HMAC_SHA_384, 128) ONE(o_sha512, IMB_AUTH_HMAC_SHA_512, 128) ONE(o_md5, IMB_AUTH_MD5, 64)
void sm3_msg_sse(void *tag, const uint64_t tag_len, const void *msg, const uint64_t msg_len) { (void) tag_len; rec_full(IMB_AUTH_HMAC_SM3, msg, msg_len, tag, 32); }
void sm3_one_block_sse(void *tag, const void *msg) { rec_one(IMB_AUTH_HMAC_SM3, msg, tag, 64); }
void safe_memcpy(void *d, const void *s, const size_t n) { for (size_t i = 0; i < n && i < MAXK; i++) ((uint8_t *) d)[i] = ((const uint8_t *) s)[i]; }
static int cleared;
void imb_clear_mem(void *p, const size_t n) { (void) p; (void) n; cleared++; }
#include "x86_64/hmac_ipad_opad.c"

int
main(void)
{
        mgr.sha1 = f_sha1; mgr.sha224 = f_sha224; mgr.sha256 = f_sha256; mgr.sha384 = f_sha384; mgr.sha512 = f_sha512;
        mgr.sha1_one_block = o_sha1; mgr.sha224_one_block = o_sha224; mgr.sha256_one_block = o_sha256; mgr.sha384_one_block = o_sha384;
        mgr.sha512_one_block = o_sha512; mgr.md5_one_block = o_md5;
        const int alg = cfg_alg;
        const unsigned bs = (alg == IMB_AUTH_HMAC_SHA_384 || alg == IMB_AUTH_HMAC_SHA_512) ? 128 : 64;
        const unsigned dl = alg == IMB_AUTH_HMAC_SHA_1 ? 20 : alg == IMB_AUTH_HMAC_SHA_224 ? 28 : alg == IMB_AUTH_HMAC_SHA_256 ? 32 : alg == IMB_AUTH_HMAC_SHA_384 ? 48
                            : alg == IMB_AUTH_HMAC_SHA_512 ? 64 : alg == IMB_AUTH_HMAC_SM3 ? 32 : 16;
        g_key_len = nondet_size();
        __CPROVER_assume(g_key_len <= 2 * bs + 1);
        for (unsigned i = 0; i < MAXK; i++) keybuf[i] = nondet_uchar();
        digest_tag = nondet_uchar();
        static uint8_t ip[64], op[64];
        void *ipad = nondet_bool() ? ip : NULL, *opad = nondet_bool() ? op : NULL;
        mgr.imb_errno = (int) nondet_size();

        imb_hmac_ipad_opad(&mgr, (IMB_HASH_ALG) alg, keybuf, g_key_len, ipad, opad);

        const int known = alg == IMB_AUTH_HMAC_SHA_1 || alg == IMB_AUTH_HMAC_SHA_224 || alg == IMB_AUTH_HMAC_SHA_256 || alg == IMB_AUTH_HMAC_SHA_384 ||
                          alg == IMB_AUTH_HMAC_SHA_512 || alg == IMB_AUTH_MD5 || alg == IMB_AUTH_HMAC_SM3;
        if (!known) {
                assert(n_full == 0 && n_one == 0);
                assert(mgr.imb_errno == IMB_ERR_HASH_ALGO); /* C14/C17: the failure is reported on THIS manager */
                return 0;
        }
        if (alg == IMB_AUTH_MD5 && g_key_len > 64) {
                assert(n_full == 0 && n_one == 0);          /* refused, nothing computed */
                assert(mgr.imb_errno == IMB_ERR_KEY_LEN);   /* C11 + C14/C17: on THIS manager */
                return 0;
        }
        assert(mgr.imb_errno == 0);
        const int longkey = g_key_len > bs;
        assert(n_full == (longkey ? 1 : 0));
        if (longkey) assert(full_alg == alg);               /* over-long keys are hashed first, with the same algorithm */
        const unsigned eff = longkey ? dl : (unsigned) g_key_len;
        assert(n_one == (ipad != NULL) + (opad != NULL));
        int k = 0;
        const unsigned j = (unsigned) nondet_size();        /* arbitrary byte position of the block */
        __CPROVER_assume(j < bs);
        const uint8_t kb = j < eff ? (longkey ? (uint8_t) (digest_tag + j) : keybuf[j]) : 0;
        if (ipad != NULL) {
                assert(one_alg[k] == alg && one_out[k] == ipad);
                assert(one_blk[k][j] == (uint8_t) (kb ^ 0x36));
                k++;
        }
        if (opad != NULL) {
                assert(one_alg[k] == alg && one_out[k] == opad);
                assert(one_blk[k][j] == (uint8_t) (kb ^ 0x5c));
        }
        assert(cleared >= 2);                               /* SAFE_DATA: key and pad scratch are wiped */
#ifdef WITNESS
        assert(0);
#endif
        return 0;
}
