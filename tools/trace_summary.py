#!/usr/bin/env python3
"""Summarise a CBMC --trace log: for each failed property, the last value assigned to each interesting variable."""
import re, sys


def summarise(path, pats=None, maxvars=80):
    txt = open(path).read()
    parts = re.split(r'^Trace for (\S+):$', txt, flags=re.M)
    out = {}
    for i in range(1, len(parts), 2):
        name, body = parts[i], parts[i + 1]
        vals = {}
        for m in re.finditer(r'^  ([A-Za-z_][\w.\[\]!@]*)=(.*?)(?: \([01 ]+\))?$', body, re.M):
            k, v = m.group(1), m.group(2)
            if '{' in v:
                continue
            vals[k] = v
        if pats:
            vals = {k: v for k, v in vals.items() if any(re.search(p, k) for p in pats)}
        out[name] = vals
    return out


if __name__ == '__main__':
    pats = sys.argv[2:] or None
    for name, vals in summarise(sys.argv[1], pats).items():
        print('==', name)
        for k, v in list(vals.items())[:200]:
            print('   %s = %s' % (k, v))
