#!/usr/bin/env python3
"""Replay of a C18 finding: re-assemble the unit from the current tree, re-execute the function symbolically and print, for every
return path that does not restore the callee-saved state, the branch trail and the register file at the `ret`.
usage: tools/abi_replay.py <dir/file.asm> <function>   (VERIF_REPO selects the tree)"""
import os, sys
sys.path.insert(0, os.path.dirname(os.path.dirname(os.path.abspath(__file__))))
from vlib.core import Ctx, nasm
from vlib.asmx import abi
from vlib.asmx.decode import Obj, R64
from vlib.asmx.engine import Engine, conc


def main():
    rel, fn = sys.argv[1], sys.argv[2]
    ctx = Ctx('replay', 'quick', 0)
    obj = Obj(nasm(ctx, rel))
    E = Engine(obj, mode='sweep', max_steps=10 ** 7, loop_bound=2)
    E.memo = {}
    E.called = set()
    E.summaries = {}
    E.stubs['*'] = abi.abi_stub
    E.stubs['*ind*'] = abi.abi_stub
    st, rsp0 = abi.fresh_state(obj, 0)
    init = {i: st.r[i] for i in abi.CALLEE_SAVED}
    fin = abi.run_with_budget(E, st, obj.syms[fn][1], 1e18, 10 ** 7)
    bad = 0
    for f in fin:
        diff = [R64[i] for i in abi.CALLEE_SAVED if not f.r[i].eq(init[i])] + (['rsp'] if conc(f.r[4]) != rsp0 + 8 else [])
        if diff or f.df or f.mxcsr_written or f.faults:
            bad += 1
            print('PATH', ' -> '.join('%x' % a for a, c in f.trace_branches))
            print('  not restored:', diff, 'DF' if f.df else '', 'MXCSR' if f.mxcsr_written else '', f.faults[:2])
            for i in abi.CALLEE_SAVED + [4]:
                print('   %-4s = %s' % (R64[i], str(f.r[i])[:100]))
    print('%d return paths, %d violating (external callees assumed ABI-conforming in this replay)' % (len(fin), bad))
    sys.exit(1 if bad else 0)


if __name__ == '__main__':
    main()
