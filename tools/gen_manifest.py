#!/usr/bin/env python3
"""Regenerate MANIFEST.json from the table below (single source of truth for what is claimed)."""
import json, os, sys
HERE = os.path.dirname(os.path.dirname(os.path.abspath(__file__)))

CHECKS = {
    'C05': dict(engine='cbmc', technique='bounded model checking (CBMC/SAT) of the real ring code: one inductive step per entry point from an arbitrary ring state, contract stubs K1; L1 proves K1',
                text='Bounded symbolic check (CBMC) of the real mb_mgr_job_api.h / mb_mgr_burst_async.h / mb_mgr_code.h as compiled into the variant file: from ANY ring state satisfying the ring invariant, one call of each of the 9 entry points keeps the invariant and obeys the step laws (oldest-first, only completed jobs, queue size +1/0/-n, full queue forces completion, offered slots never in the window). Induction over calls gives every history. Ring size 4 (quick) / 8 (thorough) slots; modular arithmetic re-checked at 256.',
                note='Trusted: CBMC; contract K1 for the stage layer (itself checked against K3 stage stubs by the L1 harness; K3 is the asmx obligation of C04); ring size reduced through a one-line patched header copy.', ref='DESIGN.md §3, §4 C05'),
    'C06': dict(engine='cbmc', technique='bounded model checking (CBMC/SAT): per table cell reachability of leaf kernels via generated assert-false bodies + naming oracle; L1 stage sequencing; session-id harness',
                text='For every permitted (cipher mode, key size, direction) and every hash algorithm, and for the four dispatchers on both the job-API and the suite-id (burst) path, CBMC decides which assembly/C leaf routines are reachable from the real dispatcher with a fully symbolic job and manager; the set must carry the algorithm/key-size/direction tokens of the cell and nothing else, and the burst path must reach exactly what the job path reaches. Stage order/once-only is the L1 harness; AEAD pairings and suite-id equality are direct assertions over symbolic descriptors.',
                note='Trusted: CBMC; the naming oracle in props/c06.py (leaf names encode algorithm/key size/direction); what the leaves compute is C01-C03.', ref='DESIGN.md §4 C06'),
    'C12': dict(engine='cbmc', technique='bounded model checking (CBMC/SAT): differential harness of the real is_job_invalid()/is_job_invalid_light() against an independent constraint catalogue over a fully symbolic descriptor; ring entry harness for "never processed"',
                text='Soundness AND completeness of the parameter validator over every descriptor (all 64-bit field values, every NULL/non-NULL pattern): rejected iff a documented constraint is violated, errno names a violated constraint, descriptor unchanged; invalid verdict at SUBMIT_JOB/SUBMIT_BURST means no stage call, INVALID_ARGS status, ring intact. Counterexamples are replayed through IMB_SUBMIT_JOB on a library built from the current tree.',
                note='Trusted: CBMC; the catalogue (cbmc/jobcheck.c) as the reading of the documentation; SGL lists <= 2 segments.', ref='DESIGN.md §4 C12'),
    'C14': dict(engine='cbmc+asmx', technique='bounded model checking (CBMC/SAT) of error.c (all 2^32 codes), cipher_suite_id.c, and the ring entry points with descriptor snapshots; L1 for exact final status; symbolic sweep (asmx/z3) of every .asm routine with an IMB_JOB* parameter: descriptor bytes outside status keep their value on every path',
                text='imb_get_strerror is total over all ints and every library code has its own message; set/get errno laws; every ring entry point leaves errno 0 on success and the failure code otherwise from any stale value; every caller-owned field of every ring job is unchanged by any entry point; a job handed back has status exactly COMPLETED or an error status (L1).',
                note='Trusted: CBMC; K1/K3 stubs; writes made inside assembly managers are the asmx write-set obligation (C04).', ref='DESIGN.md §4 C14'),
    'C20': dict(engine='cbmc', technique='bounded model checking (CBMC/SAT) of the real self_test.c with a symbolic corruption subset, and of the init wrappers on an arbitrary CPU',
                text='With API stubs modelling correct injective crypto and a callback corrupting an ARBITRARY subset of the KATs, CBMC shows: FAIL events for exactly the corrupted tests, PASS for the rest, return value and IMB_FEATURE_SELF_TEST_PASS set iff the subset is empty, every KAT offers the corruption hook, documented groups present; init_mb_mgr_{sse,avx2,avx512,auto} run the self-test exactly once after binding a variant and report IMB_ERR_SELFTEST iff it failed.',
                note='Trusted: CBMC; the crypto model in the stubs (real kernels are C01-C03).', ref='DESIGN.md §4 C20'),
}
NOT_YET = {}


def main():
    na = json.load(open(os.path.join(HERE, 'tools', 'not_applicable.json')))
    extra = json.load(open(os.path.join(HERE, 'tools', 'checks_extra.json'))) if os.path.exists(os.path.join(HERE, 'tools', 'checks_extra.json')) else {}
    CHECKS.update(extra)
    checks = []
    for pid in sorted(CHECKS):
        c = CHECKS[pid]
        checks.append({
            'property_id': pid,
            'quick_cmd': './check %s --tier quick' % pid,
            'thorough_cmd': './check %s --tier thorough' % pid,
            'evidence_file': 'evidence/%s.json' % pid,
            'replay_cmd_template': 'cat {path}/README.txt',
            'engine': c['engine'],
            'level_claimed': {'category': 'model_checking', 'text': c['text'], 'design_ref': c['ref']},
            'level_note': c['note'],
            'technique': c['technique'],
        })
    m = {
        'version': 1,
        'setup_cmd': 'true',
        'hooks': {'guard': 'INTEL_IPSEC_MB_VERIF', 'enable': 'no hooks are needed: checks compile the unmodified sources with goto-cc/nasm/gcc from /repo',
                  'baseline_off_cmd': 'cmake --build /repo/_build -j16 && ctest --test-dir /repo/_build -j8 --timeout 900',
                  'source_commits': [], 'add_only': True},
        'engines': [
            {'name': 'cbmc', 'path': 'cbmc/ + props/ + vlib/core.py', 'serves_properties': sorted(p for p in CHECKS if 'cbmc' in CHECKS[p]['engine']),
             'kind_free_text': 'CBMC 6.11 bounded model checking of the real C translation units (goto-cc with the repo flags), contract stubs via goto-instrument'},
            {'name': 'asmx', 'path': 'vlib/asmx/', 'serves_properties': sorted(p for p in CHECKS if 'asmx' in CHECKS[p]['engine']),
             'kind_free_text': 'own path-wise symbolic executor over z3 for the machine code of nasm/gcc objects rebuilt from /repo (objdump front end)'},
        ],
        'checks': checks,
        'notes': 'Every check rebuilds what it needs from /repo\'s current tree in a scratch directory. Exit 1 = VIOLATION, else 0; obligations without a verdict are printed as INCONCLUSIVE and recorded in the evidence, never counted as held (2 only if nothing reached a verdict). '
                 'Fixed defects and known findings: known_findings.txt. See DESIGN.md.',
        'not_applicable': [{'property_id': k, 'reason': v} for k, v in sorted(na.items()) if k not in CHECKS],
    }
    json.dump(m, open(os.path.join(HERE, 'MANIFEST.json'), 'w'), indent=1)
    print('MANIFEST: %d checks, %d not_applicable' % (len(checks), len(m['not_applicable'])))


if __name__ == '__main__':
    main()
